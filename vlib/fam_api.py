# vlib/fam_api.py — family API (code 2): histories of FixedBuf public-API calls.
# Case: `2 SIZE ctor [mem] op*`; trace: `-3 len wlen k bytes  (-2 result.. -3 len wlen k bytes)*`
# Serves C01 C03 C04 C10 C11 (and C19's method/Debug forms).  Encoding: coq/Run/Api.v, harness fam_api.rs.
import itertools
from .engine import Prop, Case

U = 2 ** 64
UMAX = U - 1
SIZES_SMALL = [0, 1, 2, 3]
SIZES_RANDOM = [1, 2, 3, 4, 5, 6, 8, 16, 17, 32, 64, 100, 255, 256, 257, 1024, 4096]

# op name -> (code, kind of args)
OPC = {"Len": 0, "IsEmpty": 1, "Readable": 2, "Mem": 3, "Clear": 4, "Shift": 5, "ReadByte": 6, "TryReadByte": 7,
       "ReadBytes": 8, "TryReadBytes": 9, "ReadAll": 10, "ReadCopy": 11, "TryReadExact": 12, "IoRead": 13,
       "WriteBytes": 14, "WriteStr": 15, "IoWrite": 16, "IoFlush": 17, "WritableWrote": 18, "CopyOnce": 19,
       "Deframe": 20, "TryParse": 21, "Copy": 22, "EscapeAscii": 23, "Debug": 24, "Wrote": 25,
       "PollRead": 30, "PollWrite": 31, "PollFlush": 32, "PollShutdown": 33}
READS = {"ReadByte", "TryReadByte", "ReadBytes", "TryReadBytes", "ReadAll", "ReadCopy", "TryReadExact", "IoRead",
         "Deframe", "TryParse"}
WRITES = {"WriteBytes", "WriteStr", "IoWrite", "WritableWrote", "CopyOnce", "Wrote"}
QUERIES = {"Len", "IsEmpty", "Readable", "Mem", "IoFlush", "Copy", "EscapeAscii", "Debug"}
STEPC = {"SByte": 0, "STryByte": 1, "SBytes": 2, "STryBytes": 3, "SCopy": 4, "STryExact": 5, "SAll": 6, "SNested": 7}


def enc_steps(steps):
    out = []
    for s in steps:
        if s[0] == "SNested":
            out += [7, 1 if s[2] else 0, len(s[1])] + enc_steps(s[1])
        elif s[0] in ("SBytes", "STryBytes", "SCopy", "STryExact"):
            out += [STEPC[s[0]], s[1]]
        else:
            out += [STEPC[s[0]]]
    return out


def enc_op(op):
    n = op[0]
    c = OPC[n]
    # ("IoWrite", d1, d2) / ("IoRead", k1, k2): the same call through the PROVIDED vectored entry point with the slices
    # [empty, d1, d2] / [empty, k1 bytes, k2 bytes]; std's default passes the first non-empty slice on, so the expected behaviour is
    # that of ("IoWrite", d1) / ("IoRead", k1) (d1 / k1 non-empty by construction; otherwise the plain form is encoded)
    if n == "IoWrite" and len(op) > 2 and op[2] == "all":
        # buf.write_all(d) in method-call syntax: the provided Write::write_all, i.e. one all-or-nothing write(d)
        return [28, len(op[1])] + list(op[1])
    if n == "IoWrite" and len(op) > 2 and len(op[1]) > 0:
        return [26, len(op[1])] + list(op[1]) + [len(op[2])] + list(op[2])
    if n == "IoRead" and len(op) > 2 and op[1] > 0:
        return [27, op[1], op[2]]
    if n in ("ReadBytes", "TryReadBytes", "ReadCopy", "TryReadExact", "IoRead", "Deframe", "Wrote"):
        return [c, op[1]]
    if n in ("WriteBytes", "WriteStr", "IoWrite"):
        return [c, len(op[1])] + list(op[1])
    if n == "WritableWrote":
        return [c, len(op[1])] + list(op[1]) + [op[2]]
    if n == "CopyOnce":   # (tag, a, b, data)
        return [c, op[1], op[2], op[3], len(op[4])] + list(op[4])
    if n == "PollRead":   # (pre bytes, cap, uninit)
        return [c, len(op[1])] + list(op[1]) + [op[2], op[3]]
    if n == "PollWrite":
        return [c, len(op[1])] + list(op[1])
    if n == "TryParse":   # (steps, some)
        return [c, 1 if op[2] else 0, len(op[1])] + enc_steps(op[1])
    return [c]


def mk_case(size, ctor, mem, ops, src, fam=2):
    ints = [fam, size, ctor] + (list(mem) if ctor in (1, 2) else [])
    for op in ops:
        ints += enc_op(op)
    return Case(ints, {"size": size, "ctor": ctor, "mem": list(mem) if ctor in (1, 2) else [], "ops": [list(map(_j, op)) for op in ops], "src": src})


def _j(x):
    return list(map(_j, x)) if isinstance(x, (list, tuple)) else x


def ops_of(case):
    def t(x):
        return tuple(t(y) for y in x) if isinstance(x, list) else x
    return [t(op) for op in case.meta["ops"]]


# ---- trace parsing ----
class Rec:
    __slots__ = ("result", "len", "wlen", "readable", "allocs", "mem")


def parse_trace(tr):
    """-> (initial Rec, [Rec per op]); PANIC (-1) observables are kept as -1 / None"""
    recs = []
    i = 0
    n = len(tr)

    def post(i, r):
        # tr[i] == -3
        i += 1
        r.len = tr[i] if i < n else None
        i += 1
        r.wlen = tr[i] if i < n else None
        i += 1
        if i < n and tr[i] >= 0:
            k = tr[i]
            r.readable = tr[i + 1:i + 1 + k]
            i += 1 + k
        else:
            r.readable = None
            i += 1
        r.mem = None
        if i < n and tr[i] == -5:
            if i + 1 < n and tr[i + 1] >= 0:
                k = tr[i + 1]
                r.mem = tr[i + 2:i + 2 + k]
                i += 2 + k
            else:
                i += 2
        r.allocs = None
        if i + 1 < n and tr[i] == -4:
            r.allocs = tr[i + 1]
            i += 2
        return i
    init = Rec()
    init.result = []
    if n == 0 or tr[0] != -3:
        return None, []
    i = post(0, init)
    while i < n:
        if tr[i] != -2:
            return init, None
        i += 1
        r = Rec()
        j = i
        while j < n and tr[j] != -3:
            j += 1
        r.result = tr[i:j]
        if j >= n:
            return init, None
        i = post(j, r)
        recs.append(r)
    return init, recs


# ---- a plain reference buffer, used ONLY by the generator to aim at interesting arguments ----
class PyBuf:
    def __init__(self, size, ctor, mem):
        self.size = size
        self.mem = list(mem) if ctor in (1, 2) else [0] * size
        self.ri = 0
        self.wi = size if ctor == 2 else 0

    def ln(self):
        return self.wi - self.ri

    def wl(self):
        return self.size - self.wi

    def read(self, n):
        if n > self.ln():
            return
        self.ri += n
        if self.ri == self.wi:
            self.ri = self.wi = 0

    def write(self, d):
        if len(d) > self.wl():
            return False
        self.mem[self.wi:self.wi + len(d)] = d
        self.wi += len(d)
        return True

    def shift(self):
        if self.ri:
            n = self.ln()
            self.mem[0:n] = self.mem[self.ri:self.wi]
            self.ri, self.wi = 0, n

    def unread(self):
        return self.mem[self.ri:self.wi]

    def apply(self, op):
        n = op[0]
        if n == "Clear":
            self.ri = self.wi = 0
        elif n == "Shift":
            self.shift()
        elif n in ("ReadByte",):
            self.read(1)
        elif n == "TryReadByte":
            if self.ln():
                self.read(1)
        elif n in ("ReadBytes", "TryReadBytes"):
            self.read(op[1])
        elif n == "ReadAll":
            self.read(self.ln())
        elif n in ("ReadCopy", "IoRead"):
            self.read(min(op[1], self.ln()))
        elif n == "TryReadExact":
            if op[1] <= self.ln():
                self.read(op[1])
        elif n in ("WriteBytes", "WriteStr", "IoWrite"):
            self.write(list(op[1]))
        elif n == "WritableWrote":
            k = min(len(op[1]), self.wl())
            self.mem[self.wi:self.wi + k] = op[1][:k]
            if op[2] <= self.wl():
                self.wi += op[2]
        elif n == "Wrote":
            if op[1] <= self.wl():
                self.wi += op[1]
        elif n == "CopyOnce":
            tag, a, b, data = op[1:5]
            if self.wl() > 0 and tag == 0:
                k = min(a, self.wl(), len(data))
                self.write(list(data[:k]))
        elif n == "Deframe":
            r = py_df(op[1], self.unread())
            if isinstance(r, tuple):
                self.read(r[2])
        elif n == "TryParse":
            pass   # generator keeps it simple: treated as no change (scripts mostly return None)


def py_df(which, d):
    """reference deframers for the selector of Run/Api.v `df_sel`: (a,b,n) | None | 'err' | 'panic'"""
    from .fam_df import spec
    if which in (0, 1, 2):
        return spec(which, d)
    if which == 3:
        return "err"
    if which == 4:
        return "panic"
    if which == 5:
        if not d:
            return None
        k = d[0]
        return (1, 1 + k, 1 + k) if k <= len(d) - 1 else None
    if 120 in d:
        return "err"
    return spec(0, d)


BYTES = [97, 98, 10, 13, 0, 120, 255]


def rbytes(rng, n, ascii_only=False):
    al = [97, 98, 99, 10, 13, 0, 120] if ascii_only else BYTES
    return [rng.choice(al) if rng.random() < 0.8 else (rng.randrange(128) if ascii_only else rng.randrange(256)) for _ in range(n)]


NOVEL = []      # literals of the current source that the pinned source does not contain (vlib/dictionary.py); empty on the unchanged tree


def counts_for(b, rng=None):
    """boundary counts relative to the current state"""
    l, w, s = b.ln(), b.wl(), b.size
    c = {0, 1, 2, max(l - 1, 0), l, l + 1, max(w - 1, 0), w, w + 1, s, s + 1, UMAX, UMAX - 1, U - b.ri if b.ri else UMAX,
         (U - b.wi) % U, 2 ** 63, U - 1 - b.ri}
    c |= set(NOVEL)
    return sorted(x for x in c if 0 <= x <= UMAX)


def dictionary_cases(rng):
    """directed search around novel literals: buffers whose read offset / write offset / length / size equal the literal
    (and, for pairs of literals, read offset = one and length = the other), then every op instance with the literals among the counts"""
    from . import dictionary
    groups = []          # one list of cases per (literal, state); a budget is shared fairly between the groups
    cases = []
    EXACT = list(dictionary.exact())
    def alphabet(b, S, v):
        alpha = op_alphabet(b, rng)
        if S > 1024:
            keep = {"Shift", "ReadAll", "ReadByte", "Clear", "Len", "Readable", "Deframe", "CopyOnce", "TryParse", "WriteStr"}
            vals = set([0, 1, v, b.ln(), b.wl()]) | set(NOVEL)
            alpha = [o for o in alpha if o[0] in keep or (len(o) > 1 and isinstance(o[1], int) and o[1] in vals)
                     or (o[0] in ("WriteBytes", "IoWrite") and len(o[1]) in vals)]
            near = (v - 1, v, v + 1)
            def script_ints(steps):
                for st in steps:
                    for x in st[1:]:
                        if isinstance(x, int) and not isinstance(x, bool):
                            yield x
                        elif isinstance(x, tuple):
                            yield from script_ints(x)
            def p0(o):
                if o[0] == "TryParse":
                    ints = [x for x in script_ints(o[1]) if x in NOVEL]
                    return 0 if (not ints or any(x in near for x in ints)) else 2
                if o[0] in ("Shift", "ReadAll", "Clear") or (o[0] == "Deframe" and o[1] in (0, 1, 2)):
                    return 0
                if any(isinstance(x, int) and x in near for x in o[1:]) or any(isinstance(x, tuple) and len(x) in near for x in o[1:]):
                    return 1
                return 2
            alpha = sorted(alpha, key=p0)[:(48 if S <= 140000 else 30)]
        if b.ln() > 4096:
            # the model's deframers are quadratic in the unread length: only the three provided ones, and (from_states) without the model
            alpha = [o for o in alpha if o[0] != "Deframe" or o[1] in (0, 1, 2)]
        return [o for o in alpha if not (o[0] in ("ReadCopy", "TryReadExact", "IoRead") and o[1] > 300000)]
    def from_states(S, states, v):
        for ctor, m, pre in states:
            cases = []
            groups.append(cases)
            b = PyBuf(S, ctor, m)
            for op in pre:
                b.apply(op)
            for op in alphabet(b, S, v):
                c = mk_case(S, ctor, m, pre + [op], "dictionary")
                if op[0] == "Deframe" and b.ln() > 4096:
                    c.meta["nomodel"] = True
                cases.append(c)
                if op[0] in ("Shift", "ReadBytes", "Wrote", "WriteBytes", "Clear", "ReadAll"):
                    b2 = PyBuf(S, ctor, m)
                    for o in pre + [op]:
                        b2.apply(o)
                    if b2.ln() <= 4000:      # the model's deframers are quadratic in the unread length
                        cases.append(mk_case(S, ctor, m, pre + [op, ("WriteBytes", (120, 121, 10))] + [("Deframe", 0), ("ReadAll",)], "dictionary"))
    for v in NOVEL:
        S = dictionary.size_for(v + 3)
        if S is None or (S > 4096 and v not in EXACT):      # big buffers are expensive in the model: only the literal itself
            continue
        mem = [97 + (i % 26) for i in range(S)]
        big = S > 4096
        def blk(n):      # n bytes whose only terminators (CR LF NUL) are the last three
            return tuple(mem[:max(n - 3, 0)] + [13, 10, 0][-min(n, 3):]) if n else ()
        states = []
        if v >= 1 and not big:
            states.append((2, mem, [("ReadBytes", v)]))                                 # read offset = v, full to the end
            states.append((2, mem, [("ReadBytes", S - v)]))                             # length = v
        if not big:
            states.append((0, [], [("WriteBytes", tuple(mem[:v]))] if v else []))       # write offset = v, length = v
        if v >= 1:
            states.append((0, [], [("WriteBytes", tuple(mem[:v + 3])), ("ReadBytes", v)]))   # read offset = v, 3 unread bytes
        if v >= 2:
            states.append((0, [], [("WriteBytes", tuple(mem[:v])), ("ReadBytes", v - 2)]))   # write offset = v, 2 unread bytes
        if not big:
            states.append((0, [], [("WriteBytes", tuple(mem[:v + 2])), ("ReadBytes", 2)]))   # length = v at offset 2
        if big:
            states.append((0, [], [("WriteBytes", blk(v))]))                            # length = v
            states.append((0, [], [("WriteBytes", blk(v + 3))]))                        # length just above v
            states.append((0, [], [("WriteBytes", blk(v + 8)), ("ReadBytes", 2)]))      # a small read offset under a length above v
        from_states(S, states, v)
    # pairs of literals (and their lower/upper neighbours): read offset = a, unread length = b
    pairs = []
    for x in EXACT[:4]:
        for y in EXACT[:4]:
            if x == y:
                continue
            for a in (x - 1, x):
                for b_ in (y, y + 1):
                    if a >= 1 and b_ >= 1 and max(a, b_) >= 256 and (a, b_) not in pairs:
                        pairs.append((a, b_))
    pairs.sort(key=lambda p: min(p))          # a small offset with a large length (or the reverse) first
    for a, b_ in pairs[:10]:
        S = dictionary.size_for(a + b_)
        if S is None:
            continue
        mem = [97 + (i % 26) for i in range(a + b_)]
        from_states(S, [(0, [], [("WriteBytes", tuple(mem)), ("ReadBytes", a)])], b_)
    # budget: at most 2500 cases / 60 MB, taken round-robin from the groups (ops with a literal among their arguments first)
    def prio(c):
        ops = ops_of(c)
        last = ops[-1] if ops[-1][0] != "ReadAll" or len(ops) < 3 else ops[-4] if len(ops) >= 4 else ops[-1]
        hit = any(isinstance(x, int) and x in NOVEL for x in last[1:]) or any(isinstance(x, tuple) and len(x) in NOVEL for x in last[1:])
        if last[0] == "Deframe" and c.meta.get("nomodel"):
            return -1
        return 0 if hit or last[0] in ("Shift", "ReadAll", "TryParse", "Clear", "CopyOnce") else 1
    for g in groups:
        g.sort(key=prio)
    out, size, i = [], 0, 0
    while len(out) < 3000 and size < 160000000 and any(groups):
        g = groups[i % len(groups)]
        if g:
            c = g.pop(0)
            out.append(c)
            size += len(c.line)
        i += 1
        if i > 10 ** 6:
            break
    return out


def rand_steps(rng, b, depth):
    steps = []
    for _ in range(rng.randrange(0, 4)):
        k = rng.random()
        l = b.ln()
        smalls = [0, 1, 2, l, max(l - 1, 0), l + 1]
        if k < 0.12:
            steps.append(("STryByte",))
        elif k < 0.2 and l > 0:
            steps.append(("SByte",))
        elif k < 0.4:
            steps.append(("STryBytes", rng.choice(smalls)))
        elif k < 0.5:
            steps.append(("SBytes", rng.choice([0, 1, l, max(l - 1, 0)] if rng.random() < 0.9 else [l + 1, UMAX])))
        elif k < 0.65:
            steps.append(("SCopy", rng.choice(smalls)))
        elif k < 0.8:
            steps.append(("STryExact", rng.choice(smalls)))
        elif k < 0.9:
            steps.append(("SAll",))
        elif depth < 3:
            steps.append(("SNested", tuple(rand_steps(rng, b, depth + 1)), rng.random() < 0.5))
    return tuple(steps)


def op_alphabet(b, rng, rich=True):
    """instances of every op with boundary arguments for the state b"""
    ops = [("Len",), ("IsEmpty",), ("Readable",), ("Clear",), ("Shift",), ("ReadByte",), ("TryReadByte",), ("ReadAll",),
           ("IoFlush",), ("Copy",)]
    cs = counts_for(b)
    small = [x for x in cs if x <= b.size + 2]
    for n in cs:
        ops += [("ReadBytes", n), ("TryReadBytes", n), ("Wrote", n)]
    for n in small:
        ops += [("ReadCopy", n), ("TryReadExact", n), ("IoRead", n)]
        d = [97 + (i % 26) for i in range(n)]
        ops += [("WriteBytes", tuple(d)), ("IoWrite", tuple(d))]
        ops += [("IoWrite", tuple(d), "all")]     # write_all in method-call syntax
        if n > 0:     # the provided vectored entry points (see enc_op)
            ops += [("IoWrite", tuple(d), (120,)), ("IoWrite", tuple(d), tuple([121] * max(b.ri, 1))), ("IoRead", n, 1), ("IoRead", n, b.size + 1)]
        ops += [("WritableWrote", tuple([65] * min(n, 6)), n)]
    ops += [("WriteStr", (104, 105)), ("WritableWrote", (66, 66), UMAX), ("WritableWrote", (), 1)]
    for which in range(0, 7):
        ops.append(("Deframe", which))
    ops += [("CopyOnce", 0, 1, 0, (120, 121, 122)), ("CopyOnce", 0, UMAX, 2, (120, 121, 122, 119)), ("CopyOnce", 1, 5, 0, (1,)),
            ("CopyOnce", 2, 0, 0, ()), ("CopyOnce", 0, 0, 3, (7,)), ("CopyOnce", 4, b.wl() + 1, 0, ())]
    for n in NOVEL:
        if 0 < n <= b.ln():      # closures that read a literal-sized block and then a little more, and give up
            ops += [("TryParse", (("STryBytes", n), ("STryByte",)), False), ("TryParse", (("SCopy", min(n, 300000)), ("STryBytes", 1)), False),
                    ("TryParse", (("SBytes", n), ("SNested", (("STryByte",),), False)), False)]
    ops += [("TryParse", (("SAll",),), False), ("TryParse", (("STryBytes", 1),), True), ("TryParse", (("SCopy", 2),), False),
            ("TryParse", (("SNested", (("SAll",),), True), ("STryByte",)), False), ("TryParse", (("SBytes", UMAX),), False)]
    return ops


def reach_prefixes(size):
    """op prefixes that reach every (ri, wi) state of a FixedBuf<size> from new(): write w, read r (r < w), and r == w"""
    out = []
    for w in range(size + 1):
        for r in range(0, w):
            pre = [("WriteBytes", tuple(97 + i for i in range(w)))] if w else []
            if r:
                pre.append(("ReadBytes", r))
            out.append(pre)
    out.append([])
    return out


def random_history(rng, size, maxlen, weights=None):
    ctor = rng.choice([0, 0, 0, 1, 2, 2, 3]) if size <= 64 else 0
    mem = rbytes(rng, size) if ctor in (1, 2) else []
    b = PyBuf(size, ctor, mem)
    ops = []
    for _ in range(rng.randrange(1, maxlen + 1)):
        l, w = b.ln(), b.wl()
        valid = rng.random() < 0.75
        k = rng.random()
        if k < 0.30:     # a write path
            n = rng.choice([0, 1, 2, w, max(w - 1, 0), rng.randrange(0, w + 1)]) if valid else rng.choice([w + 1, w + 2, size + 1])
            n = min(n, 70000)
            kind = rng.random()
            if kind < 0.4:
                op = ("WriteBytes", tuple(rbytes(rng, n)))
            elif kind < 0.5:
                op = ("WriteStr", tuple(rbytes(rng, n, True)))
            elif kind < 0.65:
                op = ("IoWrite", tuple(rbytes(rng, n)))
                if n > 0 and rng.random() < 0.4:
                    op = op + (tuple(rbytes(rng, rng.choice([1, 2, max(b.ri, 1), max(w - n, 1), w + 1]))),)
                elif rng.random() < 0.3:
                    op = op + ("all",)
            elif kind < 0.85:
                m = rng.choice([n, n, max(n - 1, 0), n + 1])
                op = ("WritableWrote", tuple(rbytes(rng, min(m, 300))), n if valid else rng.choice([w + 1, UMAX, (U - b.wi) % U]))
            else:
                tag = rng.choice([0, 0, 0, 0, 1, 2, 4])
                a = rng.choice([0, 1, w, max(w - 1, 0), UMAX]) if tag == 0 else (rng.randrange(1, 8) if tag == 1 else rng.choice([0, w, w + 1]))
                op = ("CopyOnce", tag, a, rng.choice([0, 0, 1, 5]), tuple(rbytes(rng, rng.randrange(0, min(w, 40) + 3))))
        elif k < 0.62:   # a read path
            n = rng.choice([0, 1, 2, l, max(l - 1, 0), rng.randrange(0, l + 1)]) if valid else rng.choice([l + 1, l + 2, UMAX, UMAX - 1, U - b.ri if b.ri else UMAX, 2 ** 63])
            kind = rng.random()
            if kind < 0.25:
                op = ("ReadBytes", n)
            elif kind < 0.4:
                op = ("TryReadBytes", n)
            elif kind < 0.5:
                op = ("ReadByte",) if (l > 0 or not valid) else ("TryReadByte",)
            elif kind < 0.55:
                op = ("TryReadByte",)
            elif kind < 0.62:
                op = ("ReadAll",)
            elif kind < 0.75:
                op = ("ReadCopy", min(n, 5000))
            elif kind < 0.85:
                op = ("TryReadExact", min(n, 5000))
            else:
                op = ("IoRead", min(n, 5000))
                if 0 < n and rng.random() < 0.4:
                    op = op + (rng.choice([1, 2, max(l - min(n, l), 1), l + 1]),)
        elif k < 0.70:
            op = ("Shift",)
        elif k < 0.73:
            op = ("Clear",)
        elif k < 0.82:
            op = ("Deframe", rng.choice([0, 0, 1, 2, 2, 3, 4, 5, 5, 6]))
        elif k < 0.90:
            op = ("TryParse", rand_steps(rng, b, 0), rng.random() < 0.35)
        else:
            op = rng.choice([("Len",), ("IsEmpty",), ("Readable",), ("IoFlush",), ("Copy",), ("Mem",)])
        ops.append(op)
        b.apply(op)
    return mk_case(size, ctor, mem, ops, "random")


class ApiProp(Prop):
    harness = "sync"
    family_doc = "API: constructor + history of FixedBuf calls -> per-call result, len(), writable().len(), readable()"
    with_mem = False        # whether Mem results are compared
    pair_depth = True

    def gen(self, tier, rng):
        cases = []
        # (a) exhaustive small scope: every reachable (ri, wi) state of FixedBuf<0..3>, every op instance, every pair
        for size in SIZES_SMALL:
            for pre in reach_prefixes(size):
                b = PyBuf(size, 0, [])
                for op in pre:
                    b.apply(op)
                alpha = op_alphabet(b, rng)
                for op in alpha:
                    cases.append(mk_case(size, 0, [], pre + [op], "exhaustive-1"))
                # pairs: second op drawn from the alphabet of the state after the first
                if tier == "thorough" or size <= 2:
                    for op in alpha:
                        b2 = PyBuf(size, 0, [])
                        for o in pre + [op]:
                            b2.apply(o)
                        al2 = op_alphabet(b2, rng)
                        al2 = al2[::3] if tier != "thorough" else (al2[::2] if size == 3 else al2)
                        for op2 in al2:
                            cases.append(mk_case(size, 0, [], pre + [op, op2], "exhaustive-2"))
            for ctor in (1, 2, 3):
                mem = [120 + i for i in range(size)]
                b = PyBuf(size, ctor, mem)
                for op in op_alphabet(b, rng):
                    cases.append(mk_case(size, ctor, mem, [op], "ctor"))
        # (b) random histories
        nrand = 4000 if tier == "quick" else 60000
        for _ in range(nrand):
            size = rng.choice(SIZES_RANDOM[:9]) if rng.random() < 0.9 else rng.choice(SIZES_RANDOM)
            cases.append(random_history(rng, size, 12 if tier == "quick" else 40))
        cases += self.extra_cases(tier, rng)
        if NOVEL:
            cases += dictionary_cases(rng)
        return cases

    def extra_cases(self, tier, rng):
        return []

    # ---- step-wise correspondence: the model is restarted from the implementation's observed state
    # (mem(), len(), writable().len() determine mem, read_index, write_index) before every op, so a defect in
    # one function shows at the steps that exercise it and nowhere else ----
    relevant_ops = None          # None = every op; else a set of op names whose steps are compared
    fam_code = 2
    step_code = 8

    def step_view(self, op, rec, before):
        """what is compared for one step (overridden per property)"""
        return (tuple(rec.result), rec.len, rec.wlen, tuple(rec.readable) if rec.readable is not None else None)

    def correspond(self, cases, impl_traces, prof, model_fn):
        lines, index, out = [], [], []
        bad = set()
        for ci, c in enumerate(cases):
            init, recs = parse_trace(impl_traces[ci])
            ops = ops_of(c)
            if init is None or recs is None or len(recs) != len(ops):
                out.append((ci, "implementation trace is malformed"))
                continue
            size = c.meta["size"]
            # the constructor itself: compare the initial observation with the model's (whole-case run, zero ops)
            prev = init
            for k, (op, r) in enumerate(zip(ops, recs)):
                if (self.relevant_ops is None or op[0] in self.relevant_ops) and op[0] != "Copy":
                    if prev.mem is None or prev.len is None or prev.wlen is None or prev.len < 0 or prev.wlen < 0 or len(prev.mem) != size:
                        pass   # state not observable (a query panicked): the checker reports that
                    else:
                        wi = size - prev.wlen
                        ri = wi - prev.len
                        if 0 <= ri <= wi <= size:
                            lines.append(" ".join(map(str, [self.step_code, size, ri, wi] + list(prev.mem) + enc_op(op))))
                            index.append((ci, k, op, r, prev))
                prev = r
        # constructors: run the model on the case prefix without ops
        ctor_lines = [" ".join(map(str, [self.fam_code, c.meta["size"], c.meta["ctor"]] + (c.meta["mem"] if c.meta["ctor"] in (1, 2) else []))) for c in cases]
        uniq = sorted(set(ctor_lines))
        cm = dict(zip(uniq, model_fn(uniq)))
        for ci, c in enumerate(cases):
            init, _ = parse_trace(impl_traces[ci])
            minit, _ = parse_trace([int(x) for x in cm[ctor_lines[ci]].split()])
            if init is not None and minit is not None and (init.len, init.wlen, init.readable) != (minit.len, minit.wlen, minit.readable):
                out.append((ci, "constructor: implementation starts at %r, model at %r" % ((init.len, init.wlen, init.readable), (minit.len, minit.wlen, minit.readable))))
        uniq = sorted(set(lines))
        mm = dict(zip(uniq, model_fn(uniq)))
        for ln, (ci, k, op, r, prev) in zip(lines, index):
            if ci in bad:
                continue
            mt = [int(x) for x in mm[ln].split()]
            # model output: -2 result -3 len wlen readable -5 mem
            _, mrecs = parse_trace([-3, 0, 0, 0] + mt)
            if not mrecs:
                out.append((ci, "step %d %s: model produced no record" % (k, fmt(op))))
                bad.add(ci)
                continue
            if self.step_view(op, r, prev) != self.step_view(op, mrecs[0], prev):
                out.append((ci, "step %d %s from state (len=%d, writable=%d): implementation %r, model %r"
                            % (k, fmt(op), prev.len, prev.wlen, self.step_view(op, r, prev), self.step_view(op, mrecs[0], prev))))
                bad.add(ci)
        return out

    # comparison of model and implementation: results (minus Mem unless with_mem) + post-state
    def project(self, case, trace, prof):
        init, recs = parse_trace(trace)
        if recs is None or init is None:
            return ("unparsable", tuple(trace))
        ops = ops_of(case)
        out = [(init.len, init.wlen, tuple(init.readable) if init.readable is not None else None)]
        for op, r in zip(ops, recs):
            res = tuple(r.result)
            if op[0] == "Mem" and not self.with_mem:
                res = ()
            out.append((res, r.len, r.wlen, tuple(r.readable) if r.readable is not None else None))
        return tuple(out)

    def nontrivial(self, case, trace):
        ops = case.meta["ops"]
        return any(o[0] in READS or o[0] in WRITES or o[0] in ("Shift", "Clear") for o in ops)

    def shrink(self, case):
        m = case.meta
        ops = ops_of(case)
        for i in range(len(ops)):
            yield mk_case(m["size"], m["ctor"], m["mem"], ops[:i] + ops[i + 1:], "shrunk")
        for i, op in enumerate(ops):
            if op[0] in ("WriteBytes", "IoWrite", "WriteStr") and len(op[1]) > 1:
                yield mk_case(m["size"], m["ctor"], m["mem"], ops[:i] + [(op[0], op[1][:-1]) + tuple(op[2:])] + ops[i + 1:], "shrunk")
            if op[0] in ("ReadBytes", "TryReadBytes", "ReadCopy", "TryReadExact", "IoRead", "Wrote") and 1 < op[1] < 100000:
                yield mk_case(m["size"], m["ctor"], m["mem"], ops[:i] + [(op[0], op[1] - 1) + tuple(op[2:])] + ops[i + 1:], "shrunk")
            if op[0] == "TryParse" and len(op[1]) > 1:
                for j in range(len(op[1])):
                    yield mk_case(m["size"], m["ctor"], m["mem"], ops[:i] + [("TryParse", op[1][:j] + op[1][j + 1:], op[2])] + ops[i + 1:], "shrunk")

    def histogram(self, cases):
        h = {"ops": {}, "sizes": {}, "src": {}, "history_len": {}, "huge_count_args": 0}
        for c in cases:
            m = c.meta
            h["sizes"][str(m["size"])] = h["sizes"].get(str(m["size"]), 0) + 1
            h["src"][m["src"]] = h["src"].get(m["src"], 0) + 1
            k = str(len(m["ops"])) if len(m["ops"]) < 10 else "10+"
            h["history_len"][k] = h["history_len"].get(k, 0) + 1
            for o in m["ops"]:
                h["ops"][o[0]] = h["ops"].get(o[0], 0) + 1
                if len(o) > 1 and isinstance(o[-1], int) and o[-1] > 2 ** 62:
                    h["huge_count_args"] += 1
        return h


def fmt(op):
    return "%s%r" % (op[0], tuple(op[1:])) if len(op) > 1 else op[0]


def walk(case, trace):
    """yield (index, op, before Rec, after Rec) or raise ValueError"""
    init, recs = parse_trace(trace)
    if init is None or recs is None:
        raise ValueError("unparsable trace")
    ops = ops_of(case)
    if len(recs) != len(ops):
        raise ValueError("trace has %d records for %d ops" % (len(recs), len(ops)))
    prev = init
    for i, (op, r) in enumerate(zip(ops, recs)):
        yield i, op, prev, r
        prev = r


PAN = [-1]


# ---------------------------------------------------------------- C01
def dec_bytes(res, i=0):
    k = res[i]
    return res[i + 1:i + 1 + k], i + 1 + k


class C01(ApiProp):
    pid = "C01"
    level_text = "Coq theorems c01_step / c01_history / c01_ledger / c01_constructors: from every state satisfying the invariant (every constructor establishes it), for every SIZE, both overflow profiles, every operation of the public API with every argument, and every finite history, the model's outcome refines the FIFO-queue specification Spec/Fifo.v (reads hand out exactly a prefix, accepted writes append exactly the accepted bytes, nothing else changes the unread bytes; len/is_empty/readable report the queue). Tie: model = implementation on every reachable state of FixedBuf<0..3> x every op x (thinned) pairs, plus random histories; an independent FIFO-ledger checker runs on the implementation traces."
    coq_targets = ["Props/C01.vo"]
    nontrivial_rule = ("exhaustive: every reachable (read offset, write offset) state of FixedBuf<0..3> x every op instance with boundary "
                       "arguments x (thinned) every second op; random histories on sizes up to 4096 with 75% valid bias; "
                       "non-trivial = history contains a read, write, shift or clear; distinct = distinct (case, trace)")

    def check(self, case, trace, prof):
        try:
            q = None
            for i, op, a, b in walk(case, trace):
                if q is None:
                    q = list(a.readable) if a.readable is not None else None
                    if q is None:
                        return "op %d: readable() panicked on the initial state" % i
                if b.readable is None or b.len is None or b.len < 0:
                    return "op %d %s: readable()/len() panicked afterwards" % (i, fmt(op))
                n, res, post = op[0], list(b.result), list(b.readable)
                pan = res == PAN
                if n == "Clear" and not pan:
                    q = []
                elif n == "TryParse" and pan:
                    # the closure hit a documented panic (read_byte/read_bytes beyond len) after consuming a prefix
                    if len(post) > len(q) or q[len(q) - len(post):] != post:
                        return "op %d %s panicked; unread bytes %r are not a suffix of %r" % (i, fmt(op), post, q)
                    q = post
                elif n in QUERIES or n == "Shift" or pan:
                    if n == "Len" and not pan and res != [len(q)]:
                        return "op %d: len() = %r but %d bytes are unread" % (i, res, len(q))
                    if n == "IsEmpty" and not pan and res != [1 if not q else 0]:
                        return "op %d: is_empty() = %r but %d bytes are unread" % (i, res, len(q))
                    if n == "Readable" and not pan and dec_bytes(res)[0] != q:
                        return "op %d: readable() returned %r, unread bytes are %r" % (i, res, q)
                    # a panicking call (reader/deframer panic, or a refused read_bytes/wrote) keeps the unread bytes:
                    # reader panics inside copy_once_from commit nothing
                elif n in READS:
                    # bytes handed out must be exactly a prefix of q, the rest stays
                    if len(post) > len(q) or q[len(q) - len(post):] != post:
                        return "op %d %s: unread bytes %r are not a suffix of the previous unread bytes %r" % (i, fmt(op), post, q)
                    taken = q[:len(q) - len(post)]
                    got = None
                    if n == "ReadByte":
                        got = res
                    elif n == "TryReadByte":
                        got = res[1:] if res[0] == 1 else []
                    elif n in ("ReadBytes", "ReadAll"):
                        got = dec_bytes(res)[0]
                    elif n == "TryReadBytes":
                        got = dec_bytes(res, 1)[0] if res[0] == 1 else []
                    elif n == "ReadCopy":
                        got = dec_bytes(res, 1)[0][:res[0]]
                    elif n == "TryReadExact":
                        got = dec_bytes(res, 1)[0] if res[0] == 1 else []
                    elif n == "IoRead":
                        got = dec_bytes(res, 2)[0][:res[1]] if res[0] == 0 else []
                        if len(op) > 2 and res[0] == 0 and res[1] > op[1]:
                            got = None      # a vectored read that also filled the second slice: only the first is in the trace
                    if got is not None and got != taken:
                        return "op %d %s handed out %r but consumed %r" % (i, fmt(op), got, taken)
                    if n == "ReadAll" and post:
                        return "op %d read_all left %r unread" % (i, post)
                    q = post
                else:   # WRITES
                    if post[:len(q)] != q:
                        return "op %d %s: previous unread bytes %r are not a prefix of %r" % (i, fmt(op), q, post)
                    added = post[len(q):]
                    if n in ("WriteBytes", "WriteStr", "IoWrite"):
                        okd = res[0] == 0
                        # accepted bytes as told by the result: Ok(n) accepts the first n bytes (write_str: all)
                        # (through the vectored entry point: the first n bytes of the slices taken together — what any Write
                        # implementation may accept; which slices the PROVIDED method passes on is the model's business)
                        offered = list(op[1]) + (list(op[2]) if n == "IoWrite" and len(op) > 2 and op[2] != "all" else [])
                        want = (list(op[1]) if n == "WriteStr" else offered[:res[1]]) if okd else []
                        if added != want:
                            return "op %d %s (result %r) appended %r, accepted bytes are %r" % (i, fmt(op), res, added, want)
                    elif n == "CopyOnce":
                        if res[0] == 0 and op[1] == 0:
                            want = list(op[4])[:res[1]]
                            if added != want:
                                return "op %d copy_once_from reported %d bytes, appended %r, reader delivered %r" % (i, res[1], added, want)
                        elif res[0] == 1 and added:
                            return "op %d copy_once_from failed yet appended %r" % (i, added)
                    elif n in ("WritableWrote", "Wrote"):
                        cnt = op[2] if n == "WritableWrote" else op[1]
                        if len(added) != cnt:
                            return "op %d wrote(%d) appended %d bytes" % (i, cnt, len(added))
                        if n == "WritableWrote":
                            k = min(len(op[1]), cnt)
                            if added[:k] != list(op[1][:k]):
                                return "op %d bytes written through writable() %r came back as %r" % (i, list(op[1][:k]), added[:k])
                    q = post
                if post != q:
                    return "op %d %s: readable() is %r, the FIFO ledger says %r" % (i, fmt(op), post, q)
                if b.len != len(q):
                    return "op %d %s: len() = %d but readable() has %d bytes" % (i, fmt(op), b.len, len(q))
        except (ValueError, IndexError) as e:
            return "malformed trace: %s" % e
        return None


# ---------------------------------------------------------------- C03
class C03(ApiProp):
    pid = "C03"
    level_text = 'Coq theorems c03_step / c03_history / c03_write_boundary / c03_constructors: every API step refines the (len, writable) ledger of Spec/Capacity.v from every invariant state for every SIZE and history: writes succeed iff n <= writable and then move exactly n, refused and failed calls change nothing, shift gives SIZE-len, clear gives SIZE, reads never reduce writable, an empty buffer has all capacity writable, len+writable <= SIZE. Tie: as C01, observables writable().len(), len(), Ok/Err of the write paths; ledger checker on implementation traces.'
    coq_targets = ["Props/C03.vo"]
    nontrivial_rule = C01.nontrivial_rule + "; observables: writable().len(), len(), Ok/Err of the write paths"

    def step_view(self, op, rec, before):
        res = tuple(rec.result[:1]) if op[0] in ("WriteBytes", "WriteStr", "IoWrite", "CopyOnce") else (rec.result == PAN,)
        return (res, rec.len, rec.wlen)

    def check(self, case, trace, prof):
        size = case.meta["size"]
        try:
            for i, op, a, b in walk(case, trace):
                n, res = op[0], list(b.result)
                if None in (a.len, a.wlen, b.len, b.wlen) or min(a.len, a.wlen, b.len, b.wlen) < 0:
                    return "op %d %s: len()/writable() panicked" % (i, fmt(op))
                if b.len + b.wlen > size:
                    return "op %d %s: len() + writable().len() = %d > SIZE" % (i, fmt(op), b.len + b.wlen)
                if n == "IoWrite" and len(op) > 2 and op[2] != "all":
                    # through the vectored entry point: Ok(m) moves exactly m <= total bytes, a refusal changes nothing and happens
                    # only when the slices do not fit together (the provided method refuses when the first one does not fit)
                    total = len(op[1]) + len(op[2])
                    ok = res[0] == 0
                    if ok and (res[1] > total or b.wlen != a.wlen - res[1] or b.len != a.len + res[1]):
                        return "op %d vectored write accepted %d of %d bytes: writable %d -> %d, len %d -> %d" % (i, res[1], total, a.wlen, b.wlen, a.len, b.len)
                    if not ok and total <= a.wlen:
                        return "op %d vectored write of %d bytes refused with %d writable" % (i, total, a.wlen)
                    if not ok and (b.wlen, b.len) != (a.wlen, a.len):
                        return "op %d refused vectored write changed (len, writable) from %r to %r" % (i, (a.len, a.wlen), (b.len, b.wlen))
                elif n in ("WriteBytes", "WriteStr", "IoWrite"):
                    k = len(op[1])
                    ok = res[0] == 0
                    if ok != (k <= a.wlen):
                        return "op %d %s of %d bytes with %d writable: %s" % (i, n, k, a.wlen, "accepted" if ok else "refused")
                    if ok and (b.wlen != a.wlen - k or b.len != a.len + k):
                        return "op %d %s accepted %d bytes: writable %d -> %d, len %d -> %d" % (i, n, k, a.wlen, b.wlen, a.len, b.len)
                    if not ok and (b.wlen, b.len) != (a.wlen, a.len):
                        return "op %d refused %s changed (len, writable) from %r to %r" % (i, n, (a.len, a.wlen), (b.len, b.wlen))
                elif n in ("Wrote", "WritableWrote"):
                    cnt = op[2] if n == "WritableWrote" else op[1]
                    if res != PAN and (b.wlen != a.wlen - cnt or b.len != a.len + cnt):
                        return "op %d wrote(%d): writable %d -> %d, len %d -> %d" % (i, cnt, a.wlen, b.wlen, a.len, b.len)
                    if res == PAN and (b.wlen, b.len) != (a.wlen, a.len):
                        return "op %d refused wrote changed the accounting" % i
                elif n == "CopyOnce":
                    if res[0] == 0 and (b.wlen != a.wlen - res[1] or b.len != a.len + res[1]):
                        return "op %d copy_once_from committed %d: writable %d -> %d" % (i, res[1], a.wlen, b.wlen)
                    if res[0] != 0 and (b.wlen, b.len) != (a.wlen, a.len):
                        return "op %d failed copy_once_from changed the accounting" % i
                elif n == "Shift":
                    if res != PAN and (b.len != a.len or b.wlen != size - a.len):
                        return "op %d shift(): len %d -> %d, writable %d (SIZE - len = %d)" % (i, a.len, b.len, b.wlen, size - a.len)
                elif n == "Clear":
                    if res != PAN and (b.len, b.wlen) != (0, size):
                        return "op %d clear(): len %d, writable %d of SIZE %d" % (i, b.len, b.wlen, size)
                else:   # reads, queries
                    if b.wlen < a.wlen:
                        return "op %d %s reduced writable().len() from %d to %d" % (i, fmt(op), a.wlen, b.wlen)
                    if n in READS and b.len > a.len:
                        return "op %d %s increased len()" % (i, fmt(op))
                    if n in QUERIES and (b.len, b.wlen) != (a.len, a.wlen):
                        return "op %d query %s changed the accounting" % (i, n)
                    if n in READS and b.len == 0 and a.len > 0 and b.wlen != size:
                        return "op %d %s drained the buffer but writable().len() = %d, SIZE = %d" % (i, fmt(op), b.wlen, size)
                    if n == "TryParse" and res == [0] and (b.len, b.wlen) != (a.len, a.wlen):
                        return "op %d try_parse returned None but (len, writable) went %r -> %r" % (i, (a.len, a.wlen), (b.len, b.wlen))
        except (ValueError, IndexError) as e:
            return "malformed trace: %s" % e
        return None


# ---------------------------------------------------------------- C04
def script_panics(steps, ln):
    """does a try_parse script reach a documented panic (read_byte on empty / read_bytes beyond len)? conservative: unknown -> None"""
    return None


class C04(ApiProp):
    pid = "C04"
    level_text = 'Coq theorems c04_step (panics iff documented, for every op, argument up to usize::MAX and both overflow profiles; after a panic the invariant holds and the buffer is unchanged as specified), c04_read_bytes / c04_read_byte / c04_wrote (function-level iff, never a silent success), c04_text_no_panic, c04_deframers, and c04_pinned_refuted (the pre-fix bodies violate the contract in release: regression oracle). Tie: every history is run in the dev AND release cargo profiles under catch_unwind, with overflow-class arguments at every read offset.'
    coq_targets = ["Props/C04.vo"]
    nontrivial_rule = C01.nontrivial_rule + "; every history is run in the dev profile (overflow checks on) and the release profile (off)"

    def step_view(self, op, rec, before):
        pan = bool(rec.result) and rec.result[0] == -1
        return (pan, (rec.len, rec.wlen, tuple(rec.readable) if rec.readable is not None else None) if pan else None,
                rec.len is None or rec.len < 0, rec.wlen is None or rec.wlen < 0, rec.readable is None)

    def extra_cases(self, tier, rng):
        # overflow-class arguments at every read offset of small buffers
        cases = []
        for size in (1, 2, 3, 4, 8):
            for w in range(1, size + 1):
                for r in range(0, w):
                    pre = [("WriteBytes", tuple(97 + i for i in range(w)))] + ([("ReadBytes", r)] if r else [])
                    for k in range(0, 4):
                        for base in (U - r, U - w, U - 1, U - size, 2 ** 63, U - (w - r)):
                            n = base - k if base - k > 0 else base
                            if n > UMAX:
                                n = UMAX
                            for op in (("ReadBytes", n), ("Wrote", n), ("TryReadBytes", n), ("WritableWrote", (65,), n),
                                       ("TryParse", (("SBytes", n),), False), ("TryParse", (("STryBytes", n),), True)):
                                cases.append(mk_case(size, 0, [], pre + [op, ("Readable",)], "overflow-class"))
        return cases

    def check(self, case, trace, prof):
        try:
            for i, op, a, b in walk(case, trace):
                n, res = op[0], list(b.result)
                pan = res == PAN
                if None in (b.len, b.wlen, b.readable) or b.len < 0 or b.wlen < 0:
                    return "op %d %s: len()/writable()/readable() panicked afterwards (%s profile)" % (i, fmt(op), prof)
                state_same = (a.len, a.wlen, a.readable) == (b.len, b.wlen, b.readable)
                if n == "ReadByte" or n == "ReadBytes":
                    cnt = 1 if n == "ReadByte" else op[1]
                    if pan != (cnt > a.len):
                        return "op %d %s with len()=%d: %s (%s profile)" % (i, fmt(op), a.len, "panicked" if pan else "returned normally", prof)
                    if pan and not state_same:
                        return "op %d %s panicked and changed the buffer: readable %r -> %r (%s profile)" % (i, fmt(op), a.readable, b.readable, prof)
                elif n in ("Wrote", "WritableWrote"):
                    cnt = op[1] if n == "Wrote" else op[2]
                    if pan != (cnt > a.wlen):
                        return "op %d wrote(%d) with writable().len()=%d: %s (%s profile)" % (i, cnt, a.wlen, "panicked" if pan else "returned normally", prof)
                    if pan and not state_same:
                        return "op %d wrote(%d) panicked and changed the buffer (%s profile)" % (i, cnt, prof)
                elif n == "CopyOnce" and op[1] in (2, 4):
                    # reader panics (tag 2) or lies about the count (tag 4, contract-breaking): panic allowed, unread bytes intact
                    if pan and (a.readable != b.readable):
                        return "op %d reader panicked inside copy_once_from and the unread bytes changed" % i
                    if res and res[0] == -1 and a.readable != b.readable:
                        return "op %d reader panicked inside copy_once_from and the unread bytes changed" % i
                elif n == "Deframe" and op[1] == 4:
                    if not state_same:
                        return "op %d deframer panicked inside deframe() and the buffer changed" % i
                elif n == "TryParse":
                    # closures may call read_byte/read_bytes beyond len (documented panic); the buffer must stay usable
                    pass
                elif pan or (res and res[0] == -1):
                    return "op %d %s panicked (%s profile); only read_byte/read_bytes/wrote may panic" % (i, fmt(op), prof)
        except (ValueError, IndexError) as e:
            return "malformed trace: %s" % e
        return None


# ---------------------------------------------------------------- C10
class C10(ApiProp):
    pid = "C10"
    level_text = 'Coq theorems c10_deframe (exact result and state of deframe(f) in every invariant state for every in-bounds deframer: nothing consumed on empty / None / Err / panic) and c10_frame (exactly n bytes consumed, rest unchanged, mem untouched, mem()[range] = the selected payload, rewind case included). Tie: histories reaching non-zero read offsets and frames ending exactly at the end of the unread bytes, 7 deframers incl. length-prefix (payload at offset 1), mem()[range] compared.'
    coq_targets = ["Props/C10.vo"]
    with_mem = True
    nontrivial_rule = ("API histories that reach non-zero read offsets, then deframe(f) for seven deframers (3 provided, rejecting, "
                       "panicking, length-prefix with payload at offset 1, rejecting-on-x), followed by mem(); "
                       "non-trivial = a Deframe op on a non-empty buffer; distinct = distinct (case, trace)")

    def extra_cases(self, tier, rng):
        cases = []
        frames = [(0, [97, 98, 10]), (0, [10]), (0, [97, 13, 10]), (1, [97, 13, 10]), (1, [13, 10]), (2, [97, 0]), (2, [0]),
                  (5, [2, 120, 121]), (5, [0]), (5, [1, 255]), (6, [97, 10]), (6, [120, 10]), (3, [97]), (4, [97])]
        for size in (4, 5, 6, 8, 16):
            for which, fr in frames:
                for off in range(0, 3):
                    for left in ([], [99], [99, 10]):
                        body = [65] * off + fr + left
                        if len(body) > size:
                            continue
                        for fill_to_end in (False, True):
                            pad = size - len(body) if fill_to_end else 0
                            if pad and off == 0:
                                continue
                            pre = [("WriteBytes", tuple([65] * (off + pad) + fr + left))]
                            if off + pad:
                                pre.append(("ReadBytes", off + pad))
                            ops = pre + [("Readable",), ("Deframe", which), ("Mem",), ("Readable",), ("Deframe", which), ("Mem",)]
                            cases.append(mk_case(size, 0, [], ops, "deframe-grid"))
        return cases

    relevant_ops = {"Deframe"}

    def step_view(self, op, rec, before):
        res = tuple(rec.result)
        payload = None
        if len(rec.result) == 4 and rec.result[:2] == [0, 1] and rec.mem is not None:
            lo, hi = rec.result[2], rec.result[3]
            payload = tuple(rec.mem[lo:hi]) if 0 <= lo <= hi <= len(rec.mem) else "out-of-range"
        return (res, rec.len, rec.wlen, tuple(rec.readable) if rec.readable is not None else None, payload)

    def project(self, case, trace, prof):
        # results, post-states, and for Mem only the bytes inside the range the preceding deframe returned
        init, recs = parse_trace(trace)
        if recs is None or init is None:
            return ("unparsable", tuple(trace))
        out = []
        rng_ = None
        for op, r in zip(ops_of(case), recs):
            res = tuple(r.result)
            if op[0] == "Deframe":
                rng_ = (r.result[2], r.result[3]) if len(r.result) == 4 and r.result[:2] == [0, 1] else None
            if op[0] == "Mem":
                if rng_ and r.result and r.result[0] >= 0:
                    m = r.result[1:]
                    res = tuple(m[rng_[0]:rng_[1]])
                else:
                    res = ()
            out.append((res, r.len, r.wlen, tuple(r.readable) if r.readable is not None else None))
        return tuple(out)

    def check(self, case, trace, prof):
        try:
            last = None
            for i, op, a, b in walk(case, trace):
                n, res = op[0], list(b.result)
                if n == "Deframe":
                    last = None
                    if a.readable is None or b.readable is None:
                        return "op %d: readable() panicked" % i
                    d = list(a.readable)
                    want = py_df(op[1], d) if d else None
                    if want == "panic":
                        if (a.len, a.wlen, a.readable) != (b.len, b.wlen, b.readable):
                            return "op %d: deframer panicked and the buffer changed" % i
                        continue
                    if res == PAN:
                        return "op %d deframe panicked on %r" % (i, d)
                    if want is None:
                        if res != [0, 0] or b.readable != a.readable or (b.len, b.wlen) != (a.len, a.wlen):
                            return "op %d deframe: no complete frame in %r yet result %r / buffer changed" % (i, d, res)
                    elif want == "err":
                        if res != [1, 1] or b.readable != a.readable or (b.len, b.wlen) != (a.len, a.wlen):
                            return "op %d deframe: deframer rejects %r, expected Err(InvalidData) and no change, got %r" % (i, d, res)
                    else:
                        fa, fb_, fn = want
                        if res[:2] != [0, 1]:
                            return "op %d deframe: frame %r present in %r, got %r" % (i, want, d, res)
                        if list(b.readable) != d[fn:]:
                            return "op %d deframe consumed wrongly: %r -> %r, block length %d" % (i, d, b.readable, fn)
                        last = (res[2], res[3], d[fa:fb_])
                elif n == "Mem" and last is not None:
                    m = dec_bytes(res)[0]
                    lo, hi, payload = last
                    if not (0 <= lo <= hi <= len(m)) or m[lo:hi] != payload:
                        return "op %d: mem()[%d..%d] = %r but the deframer selected payload %r" % (i, lo, hi, m[lo:hi] if 0 <= lo <= hi <= len(m) else None, payload)
                    last = None
                elif n not in QUERIES:
                    last = None
        except (ValueError, IndexError) as e:
            return "malformed trace: %s" % e
        return None

    def nontrivial(self, case, trace):
        return any(o[0] == "Deframe" for o in case.meta["ops"])


# ---------------------------------------------------------------- C11
class C11(ApiProp):
    pid = "C11"
    level_text = "Coq theorems c11_try_parse (for any closure: Some passes through, None restores both indices) and c11_script (for every script over the reading API with any nesting, from every invariant state: None => the whole state is unchanged; Some => exactly the closure's consumption; panic => invariant kept). Tie: script grid from every reachable small state plus random nested scripts."
    coq_targets = ["Props/C11.vo"]
    nontrivial_rule = ("API histories whose try_parse closures are scripts over the reading API (nesting depth <= 3, draining "
                       "scripts over-represented) from every reachable small state and random larger ones; "
                       "non-trivial = a TryParse op whose script has at least one read step; distinct = distinct (case, trace)")

    relevant_ops = {"TryParse"}

    def step_view(self, op, rec, before):
        flag = rec.result[0] if rec.result else None
        return (flag, rec.len, rec.wlen, tuple(rec.readable) if rec.readable is not None else None)

    def extra_cases(self, tier, rng):
        cases = []
        scripts = []
        leafs = [("SByte",), ("STryByte",), ("SAll",)] + [(k, n) for k in ("SBytes", "STryBytes", "SCopy", "STryExact") for n in (0, 1, 2, 3)]
        for s in leafs:
            scripts.append((s,))
        for s1, s2 in itertools.product(leafs[::2], leafs[1::2]):
            scripts.append((s1, s2))
        for s in leafs[::2]:
            scripts.append((("SNested", (s,), False), ("STryByte",)))
            scripts.append((("SNested", (s, ("SAll",)), True),))
            scripts.append((("SNested", (("SNested", (s,), False), ("SAll",)), False), ("STryBytes", 1)))
        for size in (2, 3, 4):
            for pre in reach_prefixes(size):
                for sc in scripts:
                    for some in (False, True):
                        ops = pre + [("TryParse", tuple(sc), some), ("Readable",), ("WriteBytes", (122,)), ("ReadAll",)]
                        cases.append(mk_case(size, 0, [], ops, "script-grid"))
        return cases

    def check(self, case, trace, prof):
        try:
            for i, op, a, b in walk(case, trace):
                if op[0] == "TryParse" and list(b.result) == [0]:
                    if (a.len, a.wlen, a.readable) != (b.len, b.wlen, b.readable):
                        return ("op %d try_parse returned None but (len, writable, readable) went %r -> %r"
                                % (i, (a.len, a.wlen, a.readable), (b.len, b.wlen, b.readable)))
                if op[0] == "TryParse" and b.result and b.result[0] == 1:
                    if a.readable is None or b.readable is None or list(a.readable)[len(a.readable) - len(b.readable):] != list(b.readable):
                        return "op %d try_parse returned Some but the unread bytes %r are not a suffix of %r" % (i, b.readable, a.readable)
        except (ValueError, IndexError) as e:
            return "malformed trace: %s" % e
        return None

    def nontrivial(self, case, trace):
        return any(o[0] == "TryParse" and len(o[1]) > 0 for o in case.meta["ops"])
