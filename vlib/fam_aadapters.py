# vlib/fam_aadapters.py — families ACH (23) / ATK (24) on the tokio harness: C16, and the async half of C13 (which also runs the blocking half).
import itertools
from .engine import Prop, Case
from . import fam_adapters
from .fam_adapters import enc_script, parse, parse_half, read_view, U64, C13sync

def enc_aops(ops):
    out = []
    for op in ops:
        if op[0] == "R":      # ("R", pre bytes, cap, uninit)
            out += [0, len(op[1])] + list(op[1]) + [op[2], op[3]]
        elif op[0] == "W":
            out += [1, len(op[1])] + list(op[1])
        elif op[0] == "F":
            out += [2]
        else:
            out += [3]
    return out

def jops(ops):
    return [[o[0]] + [list(x) if isinstance(x, (list, tuple)) else x for x in o[1:]] for o in ops]

def mk_achain(s1, sc1, s2, sc2, ws, ops, src):
    ints = [23, 2, len(s1)] + list(s1) + enc_script(sc1) + [len(s2)] + list(s2) + enc_script(sc2) + enc_script(ws) + enc_aops(ops)
    return Case(ints, {"fam": "achain", "s1": list(s1), "sc1": [list(t) for t in sc1], "s2": list(s2), "sc2": [list(t) for t in sc2],
                       "ws": [list(t) for t in ws], "ops": jops(ops), "src": src})

def mk_atake(limit, s2, sc2, ws, ops, src):
    ints = [24, 2, limit, len(s2)] + list(s2) + enc_script(sc2) + enc_script(ws) + enc_aops(ops)
    return Case(ints, {"fam": "atake", "limit": limit, "s2": list(s2), "sc2": [list(t) for t in sc2], "ws": [list(t) for t in ws],
                       "ops": jops(ops), "src": src})

def ascripts(rng, n, pend=0.3, faults=True):
    sc = []
    for _ in range(n):
        x = rng.random()
        if x < pend:
            sc.append((3, 0, 0))
        elif faults and x < pend + 0.1:
            sc.append((1, rng.choice([3, 4, 5, 6, 7, 1, 2]), 0))
        elif x < pend + 0.2:
            sc.append((0, 0, 0))
        else:
            sc.append((0, rng.choice([1, 1, 2, 3, 5, U64]), rng.choice([0, 0, 0, 2])))
    return sc

def awscripts(rng, n):
    sc = []
    for _ in range(n):
        x = rng.random()
        if x < 0.2:
            sc.append((3, 0))
        elif x < 0.35:
            sc.append((1, rng.choice([3, 4, 5, 6, 7])))
        elif x < 0.6:
            sc.append((0, rng.choice([0, 1, 2])))
        else:
            sc.append((0, U64))
    return sc

RBS = [((), 0, 0), ((), 1, 0), ((), 8, 0), ((35,), 0, 0), ((35, 36), 3, 0), ((), 8, 1), ((35,), 2, 1)]


class AAdapterProp(Prop):
    harness = "tokio"
    reads_matter = True
    writes_matter = False

    def rebuild(self, m, **kw):
        d = dict(m); d.update(kw)
        ops = [tuple([o[0]] + [tuple(x) if isinstance(x, list) else x for x in o[1:]]) for o in d["ops"]]
        if d["fam"] == "achain":
            return mk_achain(d["s1"], [tuple(t) for t in d["sc1"]], d["s2"], [tuple(t) for t in d["sc2"]], [tuple(t) for t in d["ws"]], ops, "shrunk")
        return mk_atake(d["limit"], d["s2"], [tuple(t) for t in d["sc2"]], [tuple(t) for t in d["ws"]], ops, "shrunk")

    def view(self, case, tr):
        a, b = parse(tr)
        if a is None or b is None:
            return ("unparsable",)
        va = []
        for op, r in zip(case.meta["ops"], a):
            if op[0] == "R":
                va.append(("R",) + read_view(r) if self.reads_matter else ("R",))
            else:
                va.append((op[0], tuple(r.result), tuple(r.wlog), r.pos1, r.pos2) if self.writes_matter else (op[0],))
        return (tuple(va), tuple(read_view(r) for r in b))

    def correspond(self, cases, impl_traces, prof, model_fn):
        model = model_fn([c.line for c in cases])
        out = []
        for i, c in enumerate(cases):
            mt = [int(x) for x in model[i].split()]
            if self.view(c, impl_traces[i]) != self.view(c, mt):
                out.append((i, "async adapter: implementation %r / model %r" % (self.view(c, impl_traces[i]), self.view(c, mt))))
        return out

    def shrink(self, case):
        m = case.meta
        for i in range(len(m["ops"])):
            yield self.rebuild(m, ops=m["ops"][:i] + m["ops"][i + 1:])
        for key in ("sc1", "sc2", "ws"):
            if key in m:
                for i in range(len(m[key])):
                    yield self.rebuild(m, **{key: m[key][:i] + m[key][i + 1:]})
        for key in ("s1", "s2"):
            if key in m and m[key]:
                yield self.rebuild(m, **{key: m[key][:-1]})
        for i, o in enumerate(m["ops"]):
            if o[0] == "R" and o[1]:
                yield self.rebuild(m, ops=m["ops"][:i] + [["R", o[1][:-1], o[2], o[3]]] + m["ops"][i + 1:])

    def nontrivial(self, case, trace):
        return any(o[0] == "R" for o in case.meta["ops"])

    def histogram(self, cases):
        h = {"src": {}, "fam": {}, "ops": {}, "zero_capacity_readbufs": 0, "prefilled_readbufs": 0, "uninit_readbufs": 0, "pending_entries": 0}
        for c in cases:
            m = c.meta
            h["src"][m["src"]] = h["src"].get(m["src"], 0) + 1
            h["fam"][m["fam"]] = h["fam"].get(m["fam"], 0) + 1
            for o in m["ops"]:
                h["ops"][o[0]] = h["ops"].get(o[0], 0) + 1
                if o[0] == "R":
                    h["zero_capacity_readbufs"] += o[2] == 0
                    h["prefilled_readbufs"] += len(o[1]) > 0
                    h["uninit_readbufs"] += o[3] != 0
            for key in ("sc1", "sc2"):
                h["pending_entries"] += sum(1 for t in m.get(key, []) if t[0] == 3)
        return h


NOVEL = []      # see vlib/dictionary.py


def dictionary_cases():
    cases = []
    for v in NOVEL:
        if v > 70000:
            continue
        caps = [v, v + 1, 2 * v, 2 * v + 1]
        lims = [v, v + 1, 2 * v, 4 * v + 1]
        n = min(4 * v + 2, 300000)
        s2 = [97 + (i % 26) for i in range(n)]
        c = max(v, 1)
        scripts = [[], [(3, 0, 0), (0, c, 0)], [(0, c, 0), (3, 0, 0)], [(0, c, 0), (1, 5, 0)], [(0, c, 0), (0, c, 0), (3, 0, 0)]]
        for limit in lims:
            for cap in ([8] + caps):
                for pre in ((), (1, 2)):
                    ops = [("R", pre, cap, 0), ("R", pre, cap, 0), ("R", (), 8, 0)]
                    for sc in scripts:
                        cases.append(mk_atake(limit, s2, sc, [], ops, "dictionary"))
        for cap in caps:
            for pre in ((), (1, 2)):
                ops = [("R", pre, cap, 0), ("R", pre, cap, 0), ("R", (), 8, 0), ("R", (), 8, 0)]
                for sc in scripts:
                    cases.append(mk_achain(s2[:min(n, 3)], [], s2, sc, [], ops, "dictionary"))
                    cases.append(mk_achain(s2, sc, [99, 100], [], [], ops, "dictionary"))
    return cases


class C16(AAdapterProp):
    pid = "C16"
    coq_targets = ["Props/C16.vo"]
    family_doc = "ACH/ATK: poll_read histories on AsyncReadWriteChain / AsyncReadWriteTake over scripted async streams, with tokio's chain()/take() on the same scripts"
    level_text = ("Coq theorems c16_chain_sim (poll for poll, for ALL inner streams that keep the ReadBuf's backing slice and only grow its filled "
                  "part, and every well-formed ReadBuf — any filled prefix, any remaining capacity including 0, initialised or not — the chain equals "
                  "tokio's own Chain, transcribed from tokio 1.53.1 and compared with the real one in every run: result, filled bytes, inner "
                  "calls), c16_chain_pending_keeps / c16_chain_pending_only_from_inner (Pending only if an inner poll returned it; the first reader "
                  "is kept), c16_take_observable and c16_tokio_take_observable (ONE observational specification — what is appended after the "
                  "untouched filled prefix, how the allowance moves, which capacity the inner stream is offered, Pending and errors passed on — "
                  "proved of the crate's take and of tokio's Take); stream level: c16_chain_stream (a chain of any two streams that either answer "
                  "Pending leaving the filled part alone or append a prefix of a fixed remaining sequence is again such a stream, of first ++ "
                  "second: all of first, then all of second, under every Pending pattern and for every ReadBuf incl. zero capacity) and c16_take_stream "
                  "(over any inner stream that is observably a capacity-determined prefix source, a poll is Pending with nothing visible changed, or "
                  "appends a prefix of the first `allowance` remaining bytes and charges exactly that many; instance proved); c16_pinned_refuted keeps the zero-capacity counterexample of the pre-fix "
                  "chain. GenEq/SrcC16.v restates them about the regenerated poll_read functions. Stated over the modelled ReadBuf.")
    nontrivial_rule = ("scripted inner streams (chunks, spurious empty reads, errors, panics, EOF) x every subset of polls answered Pending for "
                       "short scripts x ReadBufs {empty, zero capacity, pre-filled, pre-filled + zero capacity, uninit} x limits {0, below, equal, "
                       "above, u64::MAX}; every case runs the crate adapter AND tokio's own; non-trivial = at least one poll_read")

    def gen(self, tier, rng):
        cases = []
        firsts = [([65, 66], []), ([65, 66], [(0, 1, 0)]), ([65], [(0, 0, 0)]), ([], []), ([65, 66], [(1, 5, 0)]), ([65, 66], [(2, 0, 0)])]
        L = 2 if tier == "quick" else 3
        for (s1, sc1) in firsts:
            # every subset of the first script positions answered Pending
            for mask in range(4):
                sc = []
                if mask & 1:
                    sc.append((3, 0, 0))
                sc += sc1[:1]
                if mask & 2:
                    sc.append((3, 0, 0))
                sc += sc1[1:]
                for s2, sc2 in (([99, 100], []), ([99, 100], [(3, 0, 0)]), ([], [])):
                    for rbs in itertools.product(RBS, repeat=L):
                        ops = [("R",) + rb for rb in rbs] + [("R", (), 8, 0), ("R", (), 8, 0), ("R", (), 8, 0)]
                        cases.append(mk_achain(s1, sc, s2, sc2, [], ops, "exhaustive-readbufs"))
        for (s2, sc2) in [([97, 98, 99, 100], []), ([97, 98, 99, 100], [(3, 0, 0), (0, 1, 0), (3, 0, 0)]), ([97, 98, 99, 100], [(1, 5, 0)]), ([97, 98], [(0, 0, 0)]), ([], [])]:
            for limit in (0, 1, 3, 4, 5, U64):
                for rbs in itertools.product(RBS, repeat=L):
                    ops = [("R",) + rb for rb in rbs] + [("R", (), 8, 0), ("R", (), 8, 0)]
                    cases.append(mk_atake(limit, s2, sc2, [], ops, "exhaustive-readbufs"))
        for _ in range(3000 if tier == "quick" else 60000):
            ops = []
            for _ in range(rng.randrange(1, 9)):
                x = rng.random()
                if x < 0.75:
                    ops.append(("R", tuple(rng.randrange(256) for _ in range(rng.choice([0, 0, 1, 3]))), rng.choice([0, 0, 1, 2, 3, 8, 300]), rng.choice([0, 0, 0, 1, 1, 2, 3, 5])))
                elif x < 0.9:
                    ops.append(("W", tuple(rng.randrange(256) for _ in range(rng.randrange(0, 5)))))
                else:
                    ops.append(rng.choice([("F",), ("S",)]))
            s2 = [rng.randrange(97, 123) for _ in range(rng.randrange(0, 9))]
            if rng.random() < 0.5:
                s1 = [rng.randrange(65, 91) for _ in range(rng.randrange(0, 7))]
                cases.append(mk_achain(s1, ascripts(rng, rng.randrange(0, 7)), s2, ascripts(rng, rng.randrange(0, 7)), awscripts(rng, rng.randrange(0, 4)), ops, "random"))
            else:
                limit = rng.choice([0, 1, 2, len(s2), max(len(s2) - 1, 0), len(s2) + 1, 100, U64, 2 ** 63])
                cases.append(mk_atake(limit, s2, ascripts(rng, rng.randrange(0, 8)), awscripts(rng, rng.randrange(0, 4)), ops, "random"))
        if NOVEL:
            cases += dictionary_cases()
        return cases

    def check(self, case, trace, prof):
        a, b = parse(trace)
        m = case.meta
        if a is None or b is None:
            return "malformed trace"
        ra = [(op, r) for op, r in zip(m["ops"], a) if op[0] == "R"]
        if len(ra) != len(b):
            return "read count mismatch between the adapter and tokio's own"
        name = "AsyncReadWriteChain" if m["fam"] == "achain" else "AsyncReadWriteTake"
        rem = m.get("limit")
        for k, ((op, x), y) in enumerate(zip(ra, b)):
            pre, cap = list(op[1]), op[2]
            res = list(x.result)
            if res and res[0] in (0, 1, 2) and res != [-1]:
                # filled prefix intact, only the unfilled part written
                off = 1 if res[0] in (0, 2) else 2
                filled = res[off + 1:off + 1 + res[off]]
                if filled[:len(pre)] != pre:
                    return "poll %d: the ReadBuf's already filled bytes %r became %r" % (k, pre, filled[:len(pre)])
                if res[0] == 2 and not (any(True for _ in x.log1) or any(True for _ in x.log2)):
                    return "poll %d: Pending although no inner stream was polled" % k
                if res[0] == 2 and len(filled) != len(pre):
                    return "poll %d: Pending yet %d bytes were added to the ReadBuf" % (k, len(filled) - len(pre))
                if rem is not None:
                    for c_ in x.log2:
                        if c_ > rem or c_ > cap:
                            return "poll %d: inner stream saw %d bytes of capacity; allowance %d, caller's remaining %d" % (k, c_, rem, cap)
                    if res[0] == 0:
                        rem -= len(filled) - len(pre)
            if read_view(x) != read_view(y):
                return ("poll %d: %s gave %r first(pos %d, offered %r) second(pos %d, offered %r); tokio's own gave %r first(pos %d, offered %r) second(pos %d, offered %r)"
                        % (k, name, x.result, x.pos1, x.log1, x.pos2, x.log2, y.result, y.pos1, y.log1, y.pos2, y.log2))
        return None


class C13(AAdapterProp):
    pid = "C13"
    coq_targets = ["Props/C13.vo"]
    reads_matter = False
    writes_matter = True
    family_doc = "write/flush/shutdown histories interleaved with reads on all four adapters over scripted inner read-writers (blocking half runs on harness/sync)"
    level_text = ("Coq theorems c13_chain_write / c13_chain_flush / c13_take_write / c13_take_flush and the six async counterparts "
                  "(poll_write / poll_flush / poll_shutdown on both async adapters): each makes exactly one inner call of the same kind with the "
                  "same bytes and returns its result (count, error, Pending) unchanged, leaving has_first / remaining untouched; reads make no "
                  "write-side call (from the read theorems of C08/C09/C16). For ALL inner objects. Tie: interleaved histories with scripted full / "
                  "partial / zero / error / Pending results, inner call logs compared; runs both harnesses.")
    nontrivial_rule = ("random interleavings of reads and writes/flushes/shutdowns on the four adapters with scripted inner results (full, partial, "
                       "zero, error, Pending, panic); the inner object's call log is observed; non-trivial = at least one write-side op")

    def __init__(self):
        self.sync = C13sync()

    def gen(self, tier, rng):
        cases = []
        for _ in range(2500 if tier == "quick" else 50000):
            ops = []
            for _ in range(rng.randrange(1, 9)):
                x = rng.random()
                if x < 0.3:
                    ops.append(("R", tuple(rng.randrange(256) for _ in range(rng.choice([0, 0, 1]))), rng.choice([0, 1, 2, 8]), 0))
                elif x < 0.7:
                    ops.append(("W", tuple(rng.randrange(256) for _ in range(rng.randrange(0, 6)))))
                else:
                    ops.append(rng.choice([("F",), ("S",)]))
            s2 = [rng.randrange(97, 123) for _ in range(rng.randrange(0, 6))]
            ws = awscripts(rng, rng.randrange(0, 8))
            if rng.random() < 0.5:
                s1 = [rng.randrange(65, 91) for _ in range(rng.randrange(0, 5))]
                cases.append(mk_achain(s1, ascripts(rng, rng.randrange(0, 4)), s2, ascripts(rng, rng.randrange(0, 4)), ws, ops, "random"))
            else:
                cases.append(mk_atake(rng.choice([0, 1, 3, 100, U64]), s2, ascripts(rng, rng.randrange(0, 4)), ws, ops, "random"))
        # search directed by the source: a literal / a narrow counter type -> that many consecutive calls on ONE adapter instance
        from . import dictionary
        for v in dictionary.exact():
            if 256 <= v <= 70000:
                for op in (("W", (7,)), ("F",), ("S",)):
                    ops = [op] * (v + 2) + [("W", (1, 2)), ("F",)]
                    cases.append(mk_achain([65], [], [97, 98], [], [], ops, "dictionary"))
                    cases.append(mk_atake(5, [97, 98], [], [], ops, "dictionary"))
        return cases

    def check(self, case, trace, prof):
        a, b = parse(trace)
        m = case.meta
        if a is None:
            return "malformed trace"
        ws = [tuple(t) for t in m["ws"]]
        wi = 0
        prev_pos = (0, 0)
        for k, (op, r) in enumerate(zip(m["ops"], a)):
            if op[0] == "R":
                if r.wlog:
                    return "op %d: a poll_read caused a write-side call on the inner object: %r" % (k, r.wlog)
                prev_pos = (r.pos1, r.pos2)
                continue
            act = ws[wi] if wi < len(ws) else (0, U64)
            wi += 1
            unit = [0] if act[0] == 0 else ([1, act[1]] if act[0] == 1 else ([-1] if act[0] == 2 else [2]))
            if op[0] == "W":
                d = list(op[1])
                want_log = [1, len(d)] + d
                want = [0, min(act[1], len(d))] if act[0] == 0 else unit
            else:
                want_log = [2] if op[0] == "F" else [3]
                want = unit
            if list(r.wlog) != want_log:
                return "op %d %s: inner object saw %r, expected exactly one call %r" % (k, op[0], r.wlog, want_log)
            if list(r.result) != want:
                return "op %d %s: adapter returned %r, inner returned %r" % (k, op[0], r.result, want)
            if r.log1 or r.log2 or (r.pos1, r.pos2) != prev_pos:
                return "op %d %s: a write touched the read side (reader polls %r %r)" % (k, op[0], r.log1, r.log2)
        ra = [r for op, r in zip(m["ops"], a) if op[0] == "R"]
        if b is not None and len(ra) == len(b):
            for k, (x, y) in enumerate(zip(ra, b)):
                if read_view(x) != read_view(y):
                    return "read %d differs from the run without writes: %r vs %r (writes must not change the read side)" % (k, read_view(x), read_view(y))
        return None

    def nontrivial(self, case, trace):
        return any(o[0] != "R" for o in case.meta["ops"])

    def extra(self, ctx):
        # the blocking half: ReadWriteChain / ReadWriteTake on harness/sync
        import random
        from . import build, run
        from .engine import run_cases, evaluate, write_replay, case_key, shrink_case
        exes = build.cargo_harness("sync")
        rng = random.Random(ctx["seed"] * 7 + 13)
        P = self.sync
        P.check = P.check_sync
        cases = P.gen_sync(ctx["tier"], rng)
        res = run_cases(P, exes, ctx["drv"], cases, True)
        mism, fails = evaluate(P, cases, res, ctx["drv"], True)
        ctx.setdefault("coverage_extra", {})["blocking_half"] = {"cases": len(cases), "mismatches": len(mism), "checker_failures": len(fails)}
        if fails:
            i, prof, msg = min(fails, key=lambda f: len(cases[f[0]].line))
            c = shrink_case(P, exes, ctx["drv"], cases[i], prof, "fail", True)
            path = write_replay("C13", "sync-" + case_key(c), {"property": "C13", "kind": "failing-input", "half": "blocking (harness/sync)",
                                "case": {"line": c.line, "meta": c.meta}, "checker": [msg]})
            ctx["violations"].append((path, False))
        elif mism:
            i, prof, msg = mism[0]
            path = write_replay("C13", "sync-open-" + case_key(cases[i]), {"property": "C13", "kind": "no-failing-input-found",
                                "half": "blocking (harness/sync)", "case": {"line": cases[i].line, "meta": cases[i].meta}, "detail": msg})
            ctx["violations"].append((path, True))
