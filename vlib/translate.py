# vlib/translate.py — back half of the function-body translator (tie T1 for behaviour).
#
#   rs2v ast  (Rust, syn)  : /repo/**/*.rs  ->  JSON AST of every non-test function
#   translate.py (this)    : JSON AST       ->  coq/Gen/*.v, one Gallina definition per Rust function, in the monadic
#                                               A-normal form of Sem/Base.v (the same target language as Model/*.v)
#
# The translation is syntax-directed.  What it knows about Rust:
#   * evaluation order (left to right, receiver before arguments), short-circuit && and ||,
#   * `return`, `?`, if / if-let / match (with literal sub-patterns and guards), `for n in a..b`, `loop`,
#   * `+`/`-` on unsigned integers are uadd/usub (overflow profile `chk`), comparisons are Z comparisons,
#   * self.field reads/writes are get_/set_ primitives of the struct's table,
#   * &x[a..b] / x[i] / &mut x[a..b] are slice_chk / index_chk / view_sub (panic exactly when Rust does),
#   * `&mut [u8]` parameters are in/out lists (returned beside the result), a `&mut [u8]` into self.mem is a view.
# and a table of library operations (LIB below).  Anything else raises Unsupported: the translator never guesses.
import json, os, re, sys


class Unsupported(Exception):
    pass


COQ_KEYWORDS = {"end", "in", "at", "as", "fun", "match", "with", "return", "Type", "Set", "Prop", "let", "fix", "cofix", "forall", "exists",
                "if", "then", "else", "where", "for", "using", "struct", "mod", "by", "do", "is"}


# ------------------------------------------------------------------------------------------ computation terms
class C:
    pass


class Ret(C):
    def __init__(s, p): s.p = p


class Op(C):                      # an atomic monadic term, e.g. `uadd chk a b`
    def __init__(s, t): s.t = t


class Bind(C):
    def __init__(s, x, m, k): s.x, s.m, s.k = x, m, k


class Let(C):
    def __init__(s, x, p, k): s.x, s.p, s.k = x, p, k


class If(C):
    def __init__(s, c, a, b): s.c, s.a, s.b = c, a, b


class Match(C):
    def __init__(s, scrut, arms): s.scrut, s.arms = scrut, arms   # arms: [(pattern text, C)]


class PanicC(C):
    pass


def simp(c):
    """monad right identity:  x <- m ;; ret x  ==>  m   and   m ;;; ret tt  ==>  m   (m an atomic operation)"""
    if isinstance(c, Bind):
        m, k = simp(c.m), simp(c.k)
        if isinstance(k, Ret) and isinstance(m, Op) and ((c.x is not None and k.p == c.x) or (c.x is None and k.p == "tt")):
            return m
        # q <- m ;; let b := snd q in ret (fst q, b)  ==>  m     (surjective pairing, then right identity)
        if (c.x is not None and isinstance(m, Op) and isinstance(k, Let) and k.p == "(snd %s)" % c.x and isinstance(k.k, Ret)
                and k.k.p == "((fst %s), %s)" % (c.x, k.x)):
            return m
        # x <- m ;; match x with Some v => ret (Some v) | None => ret None end  ==>  m     (eta for option, then right identity)
        if (c.x is not None and isinstance(k, Match) and k.scrut == c.x and len(k.arms) == 2 and isinstance(m, Op)
                and all(isinstance(b, Ret) for _, b in k.arms)):
            (p1, b1), (p2, b2) = k.arms
            if p1.startswith("Some ") and b1.p == "Some " + p1[5:] and p2 == "None" and b2.p == "None":
                return m
        return Bind(c.x, m, k)
    if isinstance(c, Let):
        return Let(c.x, c.p, simp(c.k))
    if isinstance(c, If):
        return If(c.c, simp(c.a), simp(c.b))
    if isinstance(c, Match):
        return Match(c.scrut, [(p, simp(b)) for p, b in c.arms])
    return c


def render(c, ind=2):
    sp = " " * ind
    if isinstance(c, Ret):
        return "ret %s" % paren(c.p)
    if isinstance(c, Op):
        return c.t
    if isinstance(c, PanicC):
        return "panic"
    if isinstance(c, Bind):
        m = render(c.m, ind + 4)
        if isinstance(c.m, (Bind, Let, If)):
            m = "(" + m + ")"
        if c.x is None:
            return "%s ;;;\n%s%s" % (m, sp, render(c.k, ind))
        return "%s <- %s ;;\n%s%s" % (c.x, m, sp, render(c.k, ind))
    if isinstance(c, Let):
        return "let %s := %s in\n%s%s" % (c.x, c.p, sp, render(c.k, ind))
    if isinstance(c, If):
        return "if %s then\n%s  %s\n%selse\n%s  %s" % (c.c, sp, render(c.a, ind + 2), sp, sp, render(c.b, ind + 2))
    if isinstance(c, Match):
        arms = "".join("\n%s| %s =>\n%s    %s" % (sp, p, sp, render(b, ind + 4)) for p, b in c.arms)
        return "match %s with%s\n%send" % (c.scrut, arms, sp)
    raise TypeError(c)


def paren(p):
    p = str(p)
    if re.fullmatch(r"[A-Za-z_][A-Za-z_0-9'.]*|-?\d+|\(.*\)|\[.*\]", p) and balanced_outer(p):
        return p
    return "(" + p + ")"


def balanced_outer(p):
    if not (p.startswith("(") or p.startswith("[")):
        return True
    d = 0
    for i, ch in enumerate(p):
        if ch in "([":
            d += 1
        elif ch in ")]":
            d -= 1
            if d == 0 and i != len(p) - 1:
                return False
    return True


def is_pure(c):
    return isinstance(c, Ret)


# ------------------------------------------------------------------------------------------ Rust types
def parse_ty(txt, generics=()):
    toks = re.findall(r"[A-Za-z_][A-Za-z_0-9]*|::|&|<|>|\(|\)|\[|\]|;|,|'[a-z_]+", txt)
    pos = [0]

    def peek():
        return toks[pos[0]] if pos[0] < len(toks) else None

    def eat(t=None):
        x = peek()
        if t is not None and x != t:
            raise Unsupported("type %r: expected %s at %d" % (txt, t, pos[0]))
        pos[0] += 1
        return x

    def ty():
        x = peek()
        if x == "&":
            eat()
            if peek() and peek().startswith("'"):
                eat()
            mut = False
            if peek() == "mut":
                eat(); mut = True
            inner = ty()
            if inner == ("arr_u8",):
                return ("mslice",) if mut else ("slice",)
            if inner == ("str",):
                return ("slice",)
            if isinstance(inner, tuple) and inner[:2] == ("named", "ReadBuf") and mut:
                return ("rb",)
            if isinstance(inner, tuple) and inner[:2] == ("named", "Context"):
                return ("skip",)
            return ("ref", mut, inner)
        if x == "[":
            eat(); el = ty()
            if peek() == ";":
                eat(); eat()
                eat("]")
                return ("array",) if el == "u8" else ("arr", el)
            eat("]")
            return ("arr_u8",) if el == "u8" else ("arrof", el)
        if x == "(":
            eat(); els = []
            while peek() != ")":
                els.append(ty())
                if peek() == ",":
                    eat()
            eat(")")
            return "unit" if not els else ("tuple", els)
        if x == "impl" or x == "dyn":
            raise Unsupported("type " + txt)
        # path
        segs = [eat()]
        while peek() == "::":
            eat(); segs.append(eat())
        args = []
        if peek() == "<":
            eat()
            while peek() != ">":
                if peek() and peek().startswith("'"):
                    eat()
                else:
                    args.append(ty())
                if peek() == ",":
                    eat()
            eat(">")
        name = segs[-1]
        if name in ("usize", "u64", "u8", "bool"):
            return name
        if name == "str":
            return ("str",)
        if name == "String":
            return ("string",)
        if name == "Option":
            return ("opt", args[0])
        if name == "Result":
            if len(args) == 1:                      # std::io::Result<T>
                return ("res", args[0], ("err", "io"))
            return ("res", args[0], args[1])
        if name == "Range":
            return ("range",)
        if name == "Error" and "io" in segs:
            return ("err", "io")
        if name in ("NotEnoughSpaceError", "MalformedInputError"):
            return ("err", name)
        if name == "Self" or name == "FixedBuf":
            return ("selfty",)
        if name in generics:
            return ("gen", name)
        if name in ("Poll",):
            return ("poll", args[0])
        if name in ("Pin",):
            return ("pin", args[0])
        return ("named", name, args)

    r = ty()
    if pos[0] != len(toks):
        raise Unsupported("type %r: trailing tokens" % txt)
    return r


# ------------------------------------------------------------------------------------------ the translator
class K:
    """continuation: f(atom, type) -> C ; cheap = may be duplicated into branches (a plain return)"""
    def __init__(s, f, cheap=False): s.f, s.cheap = f, cheap
    def __call__(s, a, t): return s.f(a, t)


class Struct:
    """per-struct table: how fields and collaborators of `self` are accessed"""
    def __init__(s, name, fields=None, methods=None, fieldops=None):
        s.name = name
        s.fields = fields or {}          # field -> (getter, setter, type)
        s.methods = methods or {}        # own methods: name -> Sig
        s.fieldops = fieldops or {}      # (field, method) -> handler for self.field.method(..)


class Sig:
    def __init__(s, coqname, ret, world="self", section_args="", pure=False, hint=None):
        s.coqname, s.ret, s.world, s.section_args, s.pure, s.hint = coqname, ret, world, section_args, pure, hint


class Fn:
    def __init__(s, tr, fn, cfg):
        s.tr, s.fn, s.cfg = tr, fn, cfg
        s.n = 0
        s.env = {}            # local name -> type
        s.sub = {}            # local name -> atom text (for renamed / destructured locals)
        s.outs = []           # names of &mut [u8] parameters, in order
        s.ret_mode = "fn"     # "fn" | "maybe"
        s.lifted = cfg.get("lifted", False)
        s.generics = tuple(re.findall(r"\b([A-Z][A-Za-z0-9]*)\b\s*(?::|,|>)", fn["generics"])) + tuple(re.findall(r"\b([A-Z])\b", fn["generics"]))

    # ---- helpers
    def is_self(s, e):
        """`self`, a local bound to `self.get_mut()`, `self.get_mut()` itself, and (newtype structs) `<self>.0`"""
        if e["k"] == "Path" and len(e["path"]) == 1:
            return e["path"][0] == "self" or s.env.get(e["path"][0]) == ("selfalias",)
        if e["k"] == "MethodCall" and e["method"] == "get_mut" and not e["args"]:
            return s.is_self(e["recv"])
        if e["k"] == "Field" and e["member"] == "0" and s.cfg.get("newtype"):
            return s.is_self(e["base"])
        return False

    @staticmethod
    def unpin(e):
        """Pin::new(&mut X) / Pin::new(&mut *X)  ->  X"""
        if e["k"] == "Call" and e["func"]["k"] == "Path" and e["func"]["path"][-2:] == ["Pin", "new"] and len(e["args"]) == 1:
            a = e["args"][0]
            if a["k"] == "Reference":
                a = a["e"]
            if a["k"] == "Unary" and a["op"] == "*":
                a = a["e"]
            return a
        return e

    def var_of(s, a, kinds):
        """the local variable whose current value is the atom a"""
        c = [n for n in s.env if s.sub.get(n, n) == a and s.env[n] and s.env[n][0] in kinds]
        if not c:
            raise Unsupported("expected a variable, got " + a)
        return c[0]

    def scoped(s, f):
        """run f() and undo what it did to the local environment (a branch cannot leak bindings)"""
        env, sub = dict(s.env), dict(s.sub)
        try:
            return f()
        finally:
            s.env, s.sub = env, sub

    def fresh(s, base):
        s.n += 1
        return "%s_%d" % (base, s.n)

    def lift(s, t):
        return "self_ (%s)" % t if s.lifted else t

    def wrap_ret(s, v):
        """value returned by the function = (v, out1, out2..) for in/out parameters"""
        if s.cfg.get("ret_repr"):
            v = "%s %s" % (s.cfg["ret_repr"][0], paren(v))
        if not s.outs:
            return v
        return "(%s)" % ", ".join([v] + [s.sub.get(o, o) for o in s.outs])

    def do_return(s, v, t=None):
        co = s.cfg.get("ret_coerce")
        if co and t is not None:
            v = co(v, t)
        return s.return_raw(s.wrap_ret(v))

    def return_raw(s, w):
        """return an already wrapped value from the enclosing construct"""
        if s.ret_mode == "fn":
            return Ret(w)
        if s.ret_mode == "pre":              # prefix of an async fn: inl = returned before the await, inr = the awaited future
            return Ret("inl %s" % paren(w))
        return Ret(s.maybe_ret(w))

    # the "maybe returned" sum: Some r / None when no in/out variable is live, inl r / inr vars otherwise
    def maybe_ret(s, w):
        return ("inl %s" if s.maybe_vars else "Some %s") % paren(w)

    def maybe_fall(s):
        if s.maybe_vars:
            return "inr %s" % paren(", ".join(s.sub.get(o, o) for o in s.maybe_vars))
        return "None"

    maybe_vars = ()

    # ---- "does this statement/expression return from the function?"  never / always / maybe
    def returns(s, node):
        if node is None:
            return "never"
        if isinstance(node, list):
            r = "never"
            for st in node:
                x = s.returns(st)
                if x == "always":
                    return "always"
                if x == "maybe":
                    r = "maybe"
            return r
        k = node.get("k")
        if k in ("Return", "Continue"):
            return "always"
        if k == "Try":
            return "maybe"
        if k == "Local":
            return s.returns(node["init"])
        if k == "Expr":
            return s.returns(node["expr"])
        if k == "If":
            c = s.returns(node["cond"])
            if c != "never":
                return c if c == "always" else "maybe"
            a = s.returns(node["then"]); b = s.returns(node["else"]) if node["else"] else "never"
            if a == "always" and b == "always":
                return "always"
            if a == "never" and b == "never":
                return "never"
            return "maybe"
        if k == "Match":
            c = s.returns(node["e"])
            if c != "never":
                return "maybe" if c == "maybe" else "always"
            rs = [s.returns(a["body"]) for a in node["arms"]] + [s.returns(a["guard"]) for a in node["arms"] if a["guard"]]
            if all(r == "always" for r in rs[:len(node["arms"])]):
                return "always"
            if all(r == "never" for r in rs):
                return "never"
            return "maybe"
        if k == "Block":
            return s.returns(node["stmts"])
        if k in ("For", "Loop", "While"):
            r = s.returns(node["body"])
            return "never" if r == "never" else "maybe"
        if k == "Closure":
            return "never"
        r = "never"
        def kids(n):
            if isinstance(n, dict):
                if "k" in n:
                    yield n
                else:
                    for v in n.values():
                        yield from kids(v)
            elif isinstance(n, list):
                for v in n:
                    yield from kids(v)
        for key, v in node.items():
            if key == "k":
                continue
            for ch in kids(v):
                x = s.returns(ch)
                if x == "always":
                    return "always"
                if x == "maybe":
                    r = "maybe"
        return r

    def touched(s, node):
        """in/out variables a statement may modify"""
        out = []
        def walk(n):
            if isinstance(n, dict):
                if n.get("k") == "Path" and len(n["path"]) == 1:
                    nm = n["path"][0]
                    t = s.env.get(nm)
                    if t and t[0] in ("mslice", "rb") and nm not in out:
                        out.append(nm)
                    if t and t[0] in ("alias", "rbalias") and t[1] not in out:
                        out.append(t[1])
                    if nm in s.backing and s.backing[nm][0] not in out:
                        out.append(s.backing[nm][0])
                for v in n.values():
                    walk(v)
            elif isinstance(n, list):
                for v in n:
                    walk(v)
        walk(node)
        return [o for o in s.outs if o in out]

    # ---- statements
    def seq(s, stmts, i, kend):
        if i == len(stmts):
            return kend("tt", "unit")
        st = stmts[i]
        last = i == len(stmts) - 1
        k = st["k"]
        if k == "Item":
            # an item declared inside a body can change what the rest of the body means (a nested macro_rules!, use, fn ...):
            # only constants are understood
            if "const" in st:
                s.local_consts = dict(s.local_consts, **{st["const"]: st["e"]})
                return s.seq(stmts, i + 1, kend)
            raise Unsupported("item declared inside a function body: " + st.get("text", "")[:60])
        if k == "Local":
            if st["else"] is not None or st["init"] is None:
                raise Unsupported("let-else / uninitialised let")
            pt, ini = st["pat"], st["init"]
            if pt["k"] == "Tuple" and len(pt["elems"]) == 2 and ini["k"] == "MethodCall" and ini["method"] in ("split_at_mut", "split_at") \
                    and len(ini["args"]) == 1 and sorted(x["k"] for x in pt["elems"]) == ["Ident", "Wild"]:
                # `let (head, _) = x.split_at_mut(n)` / `let (_, tail) = ..`: the half that is used, as `&mut x[..n]` / `&mut x[n..]`
                # (split_at panics exactly when that range does: n > len)
                which = "0" if pt["elems"][0]["k"] == "Ident" else "1"
                st = dict(st, pat=pt["elems"][int(which)], init={"k": "Field", "base": ini, "member": which})
            return s.expr(st["init"], K(lambda a, t: s.bind_pat(st["pat"], a, t, lambda: s.seq(stmts, i + 1, kend))), hint=s.pat_name(st["pat"]))
        if k == "Expr":
            e = st["expr"]
            if last and not st["semi"]:
                return s.expr(e, kend)
            return s.stmt(e, lambda: s.seq(stmts, i + 1, kend))
        raise Unsupported("statement " + k)

    def pat_name(s, p):
        return p["name"] if p["k"] == "Ident" else None

    def bind_pat(s, p, a, t, krest):
        k = p["k"]
        if k == "Type":
            return s.bind_pat(p["pat"], a, t, krest)
        if k == "Ident":
            nm = p["name"]
            s.env[nm] = t
            if t in (("selfalias",), ("readerref",)):
                return krest()
            if t and t[0] == "rbnew":
                s.env[nm] = ("rb",)
                s.backing = dict(s.backing, **{nm: (t[1], t[2])})
                s.sub.pop(nm, None)
                return Let(nm, a, krest())
            if t and t[0] in ("alias", "rbalias"):
                s.sub[nm] = a
                return krest()
            if a == nm:
                return krest()
            s.sub.pop(nm, None)
            if nm in s.tr.reserved or nm in COQ_KEYWORDS:
                s.sub[nm] = nm + "_"
                return Let(nm + "_", a, krest())
            return Let(nm, a, krest())
        if k == "Wild":
            return krest()
        raise Unsupported("let pattern " + k)

    def stmt(s, e, krest):
        """expression in statement position; its value is discarded"""
        k = e["k"]
        if k == "Continue":
            # the rest of this iteration is skipped: the loop body's value is "no early exit"
            if s.loop_depth != 1 or s.ret_mode != "maybe" or s.maybe_vars:
                raise Unsupported("continue outside the top level of a loop body")
            return Ret("None")
        if k == "Return":
            if e["e"] is None:
                return s.do_return("tt")
            return s.expr(e["e"], K(lambda a, t: s.do_return(a, t), cheap=True))
        if k in ("If", "Match"):
            r = s.returns(e)
            if r == "never":
                m = s.expr(e, K(lambda a, t: Ret("tt"), cheap=True))
                return Bind(None, m, krest())
            if r == "always" or (k == "If" and e["else"] is None and s.returns(e["then"]) == "always" and s.returns(e["cond"]) == "never"):
                # every path that enters a branch returns: the rest of the block is the fall-through branch
                return s.expr(e, K(lambda a, t: krest(), cheap=True), stmt_fall=True)
            return s.maybe_block(e, krest)
        if k == "Assign":
            return s.assign(e["l"], e["r"], krest)
        if k == "Binary" and e["op"] in ("+=", "-="):
            # primitive compound assignment: Rust evaluates the right operand first, then reads the place
            tmp = s.fresh("rhs")
            def with_r(b, tb):
                s.env[tmp] = tb
                s.sub[tmp] = b
                return s.assign(e["l"], {"k": "Binary", "op": e["op"][0], "l": e["l"], "r": {"k": "Path", "path": [tmp]}}, krest)
            return s.expr(e["r"], K(with_r))
        if k == "Macro":
            nm = e["path"][-1]
            if nm in ("assert", "debug_assert") :
                if nm == "debug_assert":
                    raise Unsupported("debug_assert (profile dependent)")
                return s.expr(e["args"][0], K(lambda a, t: Bind(None, Op("assert_ %s" % paren(a)), krest())))
            if nm == "write":
                raise Unsupported("write! in statement position")
            raise Unsupported("macro " + nm)
        if k == "For":
            return s.for_loop(e, krest)
        if k == "Block":
            return s.seq(e["stmts"], 0, K(lambda a, t: krest()))
        return s.expr(e, K(lambda a, t: krest()), discard=True)

    def maybe_block(s, e, krest):
        """a statement that returns on some paths and falls through on others"""
        vars_ = s.touched(e)
        saved = (s.ret_mode, s.maybe_vars)
        outer_mode = s.ret_mode
        outer_vars = s.maybe_vars
        s.ret_mode, s.maybe_vars = "maybe", tuple(vars_)
        ld = s.loop_depth
        s.loop_depth = 0
        inner = s.scoped(lambda: s.expr(e, K(lambda a, t: Ret(s.maybe_fall()), cheap=True)))
        s.loop_depth = ld
        s.ret_mode, s.maybe_vars = saved
        kn = s.fresh("k")
        r = s.fresh("r")
        if vars_:
            names = [s.fresh(v) for v in vars_]
            for v, nn in zip(vars_, names):
                s.sub[v] = nn
            fall = krest()
            arms = [("inl %s" % r, s.return_raw(r)), ("inr %s" % (names[0] if len(names) == 1 else "(" + ", ".join(names) + ")"), fall)]
        else:
            arms = [("Some %s" % r, s.return_raw(r)), ("None", krest())]
        return Bind(kn, inner, Match(kn, arms))

    def assign(s, l, r, krest):
        if l["k"] == "Field" and s.is_self(l["base"]):
            f = l["member"]
            st = s.cfg["struct"]
            if f not in st.fields:
                raise Unsupported("assignment to self." + f)
            getter, setter, fty = st.fields[f]
            if callable(setter):
                return setter(s, r, krest)
            return s.expr(r, K(lambda a, t: Bind(None, Op(s.lift("%s %s" % (setter, paren(a)))), krest())))
        raise Unsupported("assignment target")

    def for_loop(s, e, krest):
        it = e["e"]
        if it["k"] == "Range" and not it["inclusive"] and e["pat"]["k"] == "Ident":
            n = e["pat"]["name"]
            def with_lo(lo, _t):
                def with_hi(hi, _t2):
                    s.env[n] = "usize"
                    saved = (s.ret_mode, s.maybe_vars)
                    outer = s.ret_mode
                    s.ret_mode, s.maybe_vars = "maybe", ()
                    ld = s.loop_depth
                    s.loop_depth = 1
                    body = s.scoped(lambda: s.seq(e["body"], 0, K(lambda a, t: Ret("None"), cheap=True)))
                    s.loop_depth = ld
                    s.env[n] = "usize"
                    s.ret_mode, s.maybe_vars = saved
                    b = s.fresh("brk")
                    v = s.fresh("v")
                    loop = Op("for_range %s %s (fun %s =>\n      %s)" % (paren(lo), paren(hi), n, render(simp(body), 6)))
                    return Bind(b, loop, Match(b, [("Some %s" % v, s.return_raw(v)), ("None", krest())]))
                return s.expr(it["hi"], K(with_hi))
            return s.expr(it["lo"], K(with_lo))
        # for x in <slice or iterator call>: the locals the body assigns are the loop's accumulators
        fpat = e["pat"]
        if fpat["k"] == "Reference" and fpat["pat"]["k"] == "Ident":
            fpat = fpat["pat"]
        if fpat["k"] == "Ident":
            x = fpat["name"]
            accs = s.assigned_locals(e["body"])
            if len(accs) != 1:
                raise Unsupported("for-each loop with %d accumulators" % len(accs))
            acc = accs[0]
            if s.returns(e["body"]) != "never":
                raise Unsupported("return inside a for-each loop")
            def with_it(a, t):
                if t not in (("slice",), ("mslice",), ("bytes_iter",)):
                    raise Unsupported("for-each over %s" % (t,))
                def body():
                    s.env[x] = "u8"
                    s.sub.pop(x, None)
                    s.sub.pop(acc, None)
                    return s.seq(e["body"], 0, K(lambda _a, _t: Ret(s.sub.get(acc, acc)), cheap=True))
                b = s.scoped(body)
                cur = s.sub.get(acc, acc)
                nn = s.fresh(acc)
                loop = Op("for_each %s %s (fun %s %s =>\n      %s)" % (paren(a), paren(cur), acc, x, render(simp(b), 6)))
                s.sub[acc] = nn
                return Bind(nn, loop, krest())
            return s.expr(it, K(with_it))
        raise Unsupported("for loop over " + it["k"])

    def assigned_locals(s, body):
        """locals (declared outside) that a loop body modifies: through push_str / an assignment"""
        out = []
        def walk(n):
            if isinstance(n, dict):
                if n.get("k") == "MethodCall" and n["method"] in ("push_str", "push") and n["recv"]["k"] == "Path" and len(n["recv"]["path"]) == 1:
                    nm = n["recv"]["path"][0]
                    if nm in s.env and nm not in out:
                        out.append(nm)
                if n.get("k") == "Assign" and n["l"]["k"] == "Path" and len(n["l"]["path"]) == 1:
                    nm = n["l"]["path"][0]
                    if nm in s.env and nm not in out:
                        out.append(nm)
                for v in n.values():
                    walk(v)
            elif isinstance(n, list):
                for v in n:
                    walk(v)
        walk(body)
        return out

    # ---- expressions
    def expr(s, e, k, hint=None, discard=False, stmt_fall=False):
        kind = e["k"]
        m = getattr(s, "e_" + kind, None)
        if m is None:
            raise Unsupported("expression " + kind + (": " + e.get("text", "") if kind == "Unsupported" else ""))
        if kind in ("If", "Match"):
            return m(e, k, hint, stmt_fall)
        if kind in ("MethodCall", "Call"):
            return m(e, k, hint, discard)
        return m(e, k, hint)

    def e_Lit(s, e, k, hint):
        l = e["lit"]
        if l["k"] == "Int":
            return k(l["digits"], l["suffix"] or "int")
        if l["k"] == "Bool":
            return k("true" if l["value"] else "false", "bool")
        if l["k"] in ("Str", "ByteStr"):
            return k("[" + "; ".join(l["bytes"]) + "]", ("slice",))
        raise Unsupported("literal " + l["k"])

    def e_Path(s, e, k, hint):
        p = e["path"]
        if len(p) == 1:
            nm = p[0]
            if nm in s.env and s.env[nm] == ("reader",):
                return k(nm, ("reader",))
            if nm in s.env and s.env[nm] == ("readerref",):
                return k("tt", ("readerref",))       # a handle on the struct's first reader: no run-time content in the model
            if nm in s.env:
                return k(s.sub.get(nm, nm), s.env[nm])
            if nm == "SIZE":
                return k("SIZE", "usize")
            if nm == "None":
                return k("None", ("opt", None))
        if p[-2:] == ["Poll", "Pending"]:
            return k("PPending", ("poll", None))
        cname = p[-1] if (len(p) == 1 or p[:-1] == ["Self"]) else None
        if cname and (cname in s.tr.consts or cname in s.local_consts) and cname not in s.env:
            if cname in s.const_stack:
                raise Unsupported("recursive constant " + cname)
            s.const_stack.append(cname)
            try:
                return s.expr(s.local_consts.get(cname) or s.tr.consts[cname], k)
            finally:
                s.const_stack.pop()
        if len(p) == 1:
            nm = p[0]
            if nm == "self":
                return k("self", ("selfval",))
        raise Unsupported("path " + "::".join(p))

    def e_Paren(s, e, k, hint):
        return s.expr(e["e"], k, hint)

    def e_Field(s, e, k, hint):
        b = e["base"]
        if b["k"] == "MethodCall" and b["method"] in ("split_at_mut", "split_at") and e["member"] in ("0", "1") and len(b["args"]) == 1:
            rng = {"k": "Range", "lo": None, "hi": b["args"][0], "inclusive": False} if e["member"] == "0" else {"k": "Range", "lo": b["args"][0], "hi": None, "inclusive": False}
            return s.expr({"k": "Reference", "mut": b["method"] == "split_at_mut", "e": {"k": "Index", "e": b["recv"], "index": rng}}, k, hint)
        if s.env.get("self") == ("selfval",) and b["k"] == "Path" and b["path"] == ["self"] and "record" in s.cfg:
            f = e["member"]
            if f == "0" and s.cfg.get("newtype"):
                return k("self_", ("selfty",))
            if f not in s.cfg["record"]:
                raise Unsupported("self." + f)
            return k("(%s self_)" % s.cfg["record"][f], s.cfg.get("record_types", {}).get(f))
        if s.is_self(e):
            return k("self", ("selfalias",))
        if s.is_self(b):
            f = e["member"]
            st = s.cfg["struct"]
            if f not in st.fields:
                raise Unsupported("self." + f)
            getter, setter, fty = st.fields[f]
            if getter is None:
                raise Unsupported("self.%s used as a value" % f)
            v = s.fresh(f)
            return Bind(v, Op(s.lift(getter)), k(v, fty))
        def with_base(a, t):
            if t == ("range",):
                if e["member"] == "start":
                    return k("(fst %s)" % a if not a.startswith("(") or "," not in a else split_pair(a)[0], "usize")
                if e["member"] == "end":
                    return k("(snd %s)" % a if not a.startswith("(") or "," not in a else split_pair(a)[1], "usize")
            raise Unsupported("field ." + e["member"])
        return s.expr(b, K(with_base))

    def e_Unary(s, e, k, hint):
        op = e["op"]
        if op == "!":
            return s.expr(e["e"], K(lambda a, t: k("negb %s" % paren(a), "bool")))
        if op == "*":
            return s.expr(e["e"], k)
        raise Unsupported("unary " + op)

    def e_Cast(s, e, k, hint):
        ty = e["ty"].replace(" ", "")
        if ty in ("u64", "usize"):
            def f(a, t):
                if t not in ("usize", "u64", "int"):
                    raise Unsupported("cast of %s to %s" % (t, ty))
                return k(a, ty)           # 64-bit target: usize <-> u64 is the identity
            return s.expr(e["e"], K(f))
        raise Unsupported("cast to " + ty)

    def e_Binary(s, e, k, hint):
        op = e["op"]
        if op in ("&&", "||"):
            def with_l(a, _t):
                rc = s.scoped(lambda: s.expr(e["r"], K(lambda b, t: Ret(b), cheap=True)))
                if is_pure(rc):
                    return k("(%s %s %s)" % (paren(a), op, paren(rc.p)), "bool")
                v = s.fresh("and" if op == "&&" else "or")
                j = If(a, rc, Ret("false")) if op == "&&" else If(a, Ret("true"), rc)
                return Bind(v, j, k(v, "bool"))
            return s.expr(e["l"], K(with_l))
        def with_l(a, ta):
            def with_r(b, tb):
                t = ta if ta != "int" else tb
                if op in ("+", "-"):
                    if t not in ("usize", "u64", "int"):
                        raise Unsupported("arithmetic on %s" % (t,))
                    v = s.fresh("sum" if op == "+" else "dif")
                    return Bind(v, Op("%s chk %s %s" % ("uadd" if op == "+" else "usub", paren(a), paren(b))), k(v, t if t != "int" else "usize"))
                cmpz = {"==": "%s =? %s", "<": "%s <? %s", "<=": "%s <=? %s", ">": "%s <? %s", ">=": "%s <=? %s", "!=": "negb (%s =? %s)"}
                if op in cmpz:
                    if t not in ("usize", "u64", "u8", "int"):
                        raise Unsupported("comparison on %s" % (t,))
                    x, y = (paren(b), paren(a)) if op in (">", ">=") else (paren(a), paren(b))
                    return k("(" + cmpz[op] % (x, y) + ")", "bool")
                raise Unsupported("binary " + op)
            return s.expr(e["r"], K(with_r))
        return s.expr(e["l"], K(with_l))

    def e_Tuple(s, e, k, hint):
        if not e["elems"]:
            return k("tt", "unit")
        def go(i, acc, tys):
            if i == len(e["elems"]):
                return k("(" + ", ".join(acc) + ")", ("tuple", tys))
            return s.expr(e["elems"][i], K(lambda a, t: go(i + 1, acc + [a], tys + [t])))
        return go(0, [], [])

    def e_Range(s, e, k, hint):
        if e["inclusive"] or e["lo"] is None or e["hi"] is None:
            raise Unsupported("range form as a value")
        return s.expr(e["lo"], K(lambda a, _t: s.expr(e["hi"], K(lambda b, _t2: k("(%s, %s)" % (a, b), ("range",))))))

    def e_Block(s, e, k, hint):
        return s.seq(e["stmts"], 0, k)

    def e_Return(s, e, k, hint):
        return s.stmt(e, lambda: Ret("tt"))

    def e_Try(s, e, k, hint):
        def with_v(a, t):
            if not t or t[0] != "res":
                raise Unsupported("? on %s" % (t,))
            q = a
            ok = s.fresh("v")
            er = s.fresh("er")
            conv = s.tr.err_conv(t[2], s.cfg["ret_err"], er)
            return Match(q, [("Err %s" % er, s.do_return("Err %s" % paren(conv))), ("Ok %s" % ok, k(ok, t[1]))])
        return s.expr(e["e"], K(with_v))

    def e_Reference(s, e, k, hint):
        inner = e["e"]
        if inner["k"] == "Index":
            return s.index(inner, k, ref=True, mut=e["mut"], hint=hint)
        return s.expr(inner, k, hint)

    def e_Index(s, e, k, hint):
        return s.index(e, k, ref=False, mut=False, hint=hint)

    def index(s, e, k, ref, mut, hint):
        idx = e["index"]
        def with_base(a, t):
            if idx["k"] == "Range" or (idx["k"] == "Path" and s.env.get(idx["path"][0]) == ("range",)):
                if not ref:
                    raise Unsupported("unsized slice value")
                def with_bounds(lo, hi):
                    if t == ("slice",) or (t == ("mslice",) and not mut):
                        v = s.fresh("sl")
                        return Bind(v, Op("slice_chk %s %s %s" % (paren(a), paren(lo), paren(hi))), k(v, ("slice",)))
                    if t == ("memmut",) and mut:
                        v = s.fresh("view")
                        return Bind(v, Op(s.lift("view_of %s %s" % (paren(lo), paren(hi)))), k(v, ("view",)))
                    if t == ("view",) and mut:
                        v = hint or s.fresh("view")
                        return Bind(v, Op(s.lift("view_sub %s %s %s" % (paren(a), paren(lo), paren(hi)))), k(v, ("view",)))
                    if t and t[0] == "rbalias" and mut:
                        # &mut buf.initialize_unfilled()[lo..hi]: bounds check; the result aliases that part of the ReadBuf
                        _, base, view = t[:3]
                        d = hint or s.fresh("dest")
                        off = "v_off %s" % paren(view)
                        sub = "{| v_off := %s; v_end := %s + %s |}" % (off if lo == "0" else "%s + %s" % (off, paren(lo)), off, paren(hi))
                        return Bind(d, Op("slice_chk (rb_view_bytes %s %s) %s %s" % (paren(s.sub.get(base, base)), paren(view), paren(lo), paren(hi))),
                                    k(d, ("rbalias", base, sub, d)))
                    if t == ("mslice",) and mut:
                        # &mut x[lo..hi]: bounds check now; the result is an alias of x[lo..hi]
                        base = [n for n in s.env if s.sub.get(n, n) == a and s.env[n] == ("mslice",)]
                        if not base:
                            raise Unsupported("&mut sub-slice of a non-variable")
                        chk = Op("assert_ ((%s <=? %s) && (%s <=? zlen %s))" % (paren(lo), paren(hi), paren(hi), paren(a)))
                        return Bind(None, chk, k("<alias>", ("alias", base[0], lo, hi)))
                    raise Unsupported("slicing of %s (mut=%s)" % (t, mut))
                if idx["k"] == "Path":
                    r = s.sub.get(idx["path"][0], idx["path"][0])
                    lo, hi = split_pair(r) if r.startswith("(") else ("(fst %s)" % r, "(snd %s)" % r)
                    return with_bounds(lo, hi)
                if idx["inclusive"]:
                    raise Unsupported("inclusive range index")
                def with_lo(lo, _t):
                    if idx["hi"] is None:
                        ln = {("slice",): "zlen %s", ("mslice",): "zlen %s", ("view",): "vlen %s", ("memmut",): "zlen %s"}.get(t)
                        if ln is None:
                            raise Unsupported("open range on %s" % (t,))
                        return with_bounds(lo, ln % paren(a))
                    return s.expr(idx["hi"], K(lambda hi, _t2: with_bounds(lo, hi)))
                if idx["lo"] is None:
                    return with_lo("0", "usize")
                return s.expr(idx["lo"], K(with_lo))
            # single element
            def with_i(i, _t):
                if t in (("slice",), ("mslice",)):
                    v = s.fresh("el")
                    return Bind(v, Op("index_chk %s %s" % (paren(a), paren(i))), k(v, "u8"))
                raise Unsupported("indexing of %s" % (t,))
            return s.expr(idx, K(with_i))
        return s.expr(e["e"], K(with_base))

    # if / match -------------------------------------------------------------------------------------------
    def join(s, k, build, hint, base, node=None):
        """build(kbranch) -> C.  If k is cheap, push it into the branches; otherwise make a join point.
        When a branch may `return` (or use `?`), the join carries inl = returned value / inr = the branch's value."""
        if k.cheap:
            return build(k)
        v = s.fresh(hint and base or base)
        may_ret = node is not None and s.returns(node) != "never"
        # the join carries the branch's VALUE only: a branch that falls through after updating a variable that lives on after the
        # join (an in/out slice parameter, a string being built, a rebound local) would lose the update, so it is refused
        snap = dict(s.sub)
        watched = set(snap) | set(s.outs)
        def fall(a, t, wrap):
            lost = sorted(n for n in watched if s.sub.get(n, n) != snap.get(n, n))
            if lost:
                raise Unsupported("a branch updates %s and falls through to code after the join" % ", ".join(lost))
            s._jt[0] = t
            return Ret(wrap % paren(a) if wrap else a)
        if not may_ret:
            body = build(K(lambda a, t: fall(a, t, None), cheap=True))
            return Bind(v, body, k(v, s._jt[0]))
        saved = (s.ret_mode, s.maybe_vars, s.in_valjoin, s.loop_depth)
        s.ret_mode, s.maybe_vars, s.in_valjoin, s.loop_depth = "pre", (), True, 0
        try:
            body = build(K(lambda a, t: fall(a, t, "inr %s"), cheap=True))
        finally:
            s.ret_mode, s.maybe_vars, s.in_valjoin, s.loop_depth = saved
        r, x = s.fresh("r"), s.fresh("x")
        return Bind(v, body, Match(v, [("inl %s" % r, s.return_raw(r)), ("inr %s" % x, k(x, s._jt[0]))]))
    in_valjoin = False
    _jt = [None]

    def e_If(s, e, k, hint, stmt_fall=False):
        c = e["cond"]
        if c["k"] == "Let":
            arms = [{"pat": c["pat"], "guard": None, "body": {"k": "Block", "stmts": e["then"]}},
                    {"pat": {"k": "Wild"}, "guard": None, "body": e["else"] if e["else"] else {"k": "Block", "stmts": []}}]
            return s.e_Match({"k": "Match", "e": c["e"], "arms": arms}, k, hint, stmt_fall)
        def with_c(a, _t):
            def build(kb):
                th = s.scoped(lambda: s.seq(e["then"], 0, kb))
                el = s.scoped(lambda: s.expr(e["else"], kb) if e["else"] else kb("tt", "unit"))
                return If(a, th, el)
            return s.join(k, build, hint, "ite", node={"k": "Block", "stmts": [{"k": "Expr", "expr": {"k": "If", "cond": {"k": "Lit", "lit": {"k": "Bool", "value": True}}, "then": e["then"], "else": e["else"]}, "semi": False}]})
        return s.expr(c, K(with_c))

    def e_Match(s, e, k, hint, stmt_fall=False):
        def with_scrut(a, t):
            def build(kb):
                return s.match_arms(a, t, e["arms"], kb)
            return s.join(k, build, hint, "m", node={"k": "Match", "e": {"k": "Lit", "lit": {"k": "Bool", "value": True}}, "arms": e["arms"]})
        return s.expr(e["e"], K(with_scrut))

    def structural(s, p):
        k = p["k"]
        if k in ("Ident", "Wild"):
            return True
        if k == "Path":
            return p["path"][-1] == "None"
        if k == "Reference":
            return s.structural(p["pat"])
        if k == "Tuple":
            return all(s.structural(x) for x in p["elems"])
        if k == "TupleStruct":
            return p["path"][-1] in ("Some", "Ok", "Err") and len(p["elems"]) == 1 and s.structural(p["elems"][0])
        return False

    def depth(s, p):
        if p["k"] == "TupleStruct":
            return 1 + max([s.depth(x) for x in p["elems"]] + [0])
        if p["k"] == "Reference":
            return s.depth(p["pat"])
        if p["k"] == "Tuple":
            return max([s.depth(x) for x in p["elems"]] + [0])
        return 0

    def deep_pat(s, p, ty):
        """Coq pattern text for a structural Rust pattern; binds the identifiers it introduces (with their types)"""
        k = p["k"]
        if k == "TupleStruct":
            c = p["path"][-1]
            sub = None
            if ty and ty[0] == "opt" and c == "Some":
                sub = ty[1]
            elif ty and ty[0] == "res" and c == "Ok":
                sub = ty[1]
            elif ty and ty[0] == "res" and c == "Err":
                sub = ty[2]
            else:
                raise Unsupported("pattern %s on %s" % (c, ty))
            return "%s %s" % (c, paren(s.deep_pat(p["elems"][0], sub)))
        if k == "Path":
            return "None"
        if k == "Tuple" and not p["elems"]:
            return "tt"
        return s.pat_text(p, ty)

    def match_bool(s, a, arms, kb):
        """match on a bool: `true` / `false` literal arms (no guards), or a catch-all, tried in order"""
        def pick(val):
            for arm in arms:
                p = arm["pat"]
                if arm["guard"]:
                    raise Unsupported("guard in a match on bool")
                if p["k"] == "Lit" and p["lit"]["k"] == "Bool":
                    if p["lit"]["value"] == val:
                        return arm
                elif p["k"] == "Wild":
                    return arm
                else:
                    raise Unsupported("bool pattern " + p["k"])
            raise Unsupported("non-exhaustive match on bool")
        at, af = pick(True), pick(False)
        return If(a, s.scoped(lambda: s.expr(at["body"], kb)), s.scoped(lambda: s.expr(af["body"], kb)))

    def match_int(s, a, arms, kb):
        """match on an unsigned integer: literal arms (with optional guards) tried in order, then the catch-all"""
        def chain(i):
            if i == len(arms):
                raise Unsupported("integer match without a catch-all arm")
            arm = arms[i]
            p = arm["pat"]
            def body():
                return s.scoped(lambda: s.expr(arm["body"], kb))
            if p["k"] == "Lit" and p["lit"]["k"] == "Int":
                cond = "(%s =? %s)" % (paren(a), p["lit"]["digits"])
                if arm["guard"]:
                    return s.expr(arm["guard"], K(lambda g, _t: If("%s && %s" % (cond, paren(g)), body(), chain(i + 1))))
                return If(cond, body(), chain(i + 1))
            if p["k"] in ("Ident", "Wild"):
                def bound():
                    if p["k"] == "Ident":
                        s.env[p["name"]] = "usize"
                        s.sub[p["name"]] = a
                    if arm["guard"]:
                        return s.expr(arm["guard"], K(lambda g, _t: If(g, s.expr(arm["body"], kb), chain(i + 1))))
                    return s.expr(arm["body"], kb)
                return s.scoped(bound)
            raise Unsupported("integer pattern " + p["k"])
        return chain(0)

    def match_arms(s, a, t, arms, kb):
        if not t:
            raise Unsupported("match on a value of unknown type")
        if t in ("usize", "u64", "u8", "int"):
            return s.match_int(a, arms, kb)
        if t == "bool":
            return s.match_bool(a, arms, kb)
        if t[0] in ("opt", "res") and not any(arm["guard"] for arm in arms) and all(s.structural(arm["pat"]) for arm in arms) \
                and any(s.depth(arm["pat"]) >= 2 for arm in arms):
            out = []
            for arm in arms:
                def one(arm=arm):
                    return (s.deep_pat(arm["pat"], t), s.expr(arm["body"], kb))
                out.append(s.scoped(one))
            return Match(a, out)
        if t[0] == "opt":
            ctors = [("Some", [t[1]]), ("None", [])]
        elif t[0] == "res":
            ctors = [("Ok", [t[1]]), ("Err", [t[2]])]
        elif t == ("hasreader",):
            ctors = [("Some", [("readerref",)]), ("None", [])]
        elif t == ("pr",):
            return s.match_pr(a, arms, kb)
        else:
            raise Unsupported("match on %s" % (t,))
        out = []
        for cn, ptys in ctors:
            cands = []
            for arm in arms:
                p = arm["pat"]
                if p["k"] in ("Wild",) or (p["k"] == "Ident" and p["name"] not in ("None",)):
                    cands.append((arm, None)); break
                if p["k"] == "Ident" and p["name"] == cn and not ptys:
                    cands.append((arm, []));
                    if not arm["guard"]:
                        break
                    continue
                if p["k"] == "Path" and p["path"][-1] == cn and not ptys:
                    cands.append((arm, []))
                    if not arm["guard"]:
                        break
                    continue
                if p["k"] == "TupleStruct" and p["path"][-1] == cn:
                    cands.append((arm, p["elems"]))
                    if not arm["guard"] and s.irrefutable(p["elems"][0]):
                        break
            if not cands:
                raise Unsupported("non-exhaustive match for " + cn)
            if ptys:
                def one(cands=cands, ptys=ptys, cn=cn):
                    pat_txt, binder = s.payload_pattern(cands, ptys[0])
                    return ("%s %s" % (cn, pat_txt), s.arm_chain(cands, binder, ptys[0], kb))
                out.append(s.scoped(one))
            else:
                out.append((cn, s.scoped(lambda cands=cands: s.arm_chain(cands, None, None, kb))))
        if t == ("hasreader",):
            return If(a, out[0][1], out[1][1])
        return Match(a, out)

    def match_pr(s, a, arms, kb):
        """Poll<io::Result<()>> as returned by a collaborator's poll_read: PrOk | PrErr e | PrPending"""
        out = {}
        for arm in arms:
            p = arm["pat"]
            if arm["guard"]:
                raise Unsupported("guard on a Poll pattern")
            key = None
            if p["k"] == "Path" and p["path"][-2:] == ["Poll", "Pending"]:
                key, pat = "PrPending", "PrPending"
            elif p["k"] == "TupleStruct" and p["path"][-2:] == ["Poll", "Ready"] and len(p["elems"]) == 1:
                q = p["elems"][0]
                if q["k"] == "TupleStruct" and q["path"] == ["Err"] and q["elems"][0]["k"] == "Ident":
                    key, pat = "PrErr", "PrErr %s" % q["elems"][0]["name"]
                    nm = q["elems"][0]["name"]
                elif q["k"] == "TupleStruct" and q["path"] == ["Ok"] and q["elems"][0]["k"] == "Tuple" and not q["elems"][0]["elems"]:
                    key, pat = "PrOk", "PrOk"
            if key is None and p["k"] in ("Ident", "Wild"):
                # a catch-all arm (`other => ..`): one copy per constructor not covered yet, the name bound to the value rebuilt
                for ck, cpat, cval in (("PrOk", "PrOk", "PReady (Ok tt)"), ("PrErr", "PrErr %s", "PReady (Err %s)"), ("PrPending", "PrPending", "PPending")):
                    if ck in out:
                        continue
                    ev = s.fresh("e") if ck == "PrErr" else None
                    def rest(arm=arm, p=p, cval=cval, ev=ev):
                        if p["k"] == "Ident":
                            s.env[p["name"]] = ("poll", ("res", "unit", ("err", "io")))
                            s.sub[p["name"]] = (cval % ev) if ev else cval
                        return s.expr(arm["body"], kb)
                    out[ck] = ((cpat % ev) if ev else cpat, s.scoped(rest))
                break
            if key is None or key in out:
                raise Unsupported("Poll pattern")
            def one(arm=arm, key=key):
                if key == "PrErr":
                    s.env[arm["pat"]["elems"][0]["elems"][0]["name"]] = ("err", "io")
                return s.expr(arm["body"], kb)
            out[key] = (pat, s.scoped(one))
        if set(out) != {"PrOk", "PrErr", "PrPending"}:
            raise Unsupported("non-exhaustive Poll match")
        return Match(a, [out["PrOk"], out["PrErr"], out["PrPending"]])

    def irrefutable(s, p):
        if p["k"] in ("Ident", "Wild"):
            return True
        if p["k"] == "Tuple":
            return all(s.irrefutable(x) for x in p["elems"])
        if p["k"] == "Reference":
            return s.irrefutable(p["pat"])
        return False

    def payload_pattern(s, cands, pty):
        """Coq pattern for the payload of a constructor, and the binder structure"""
        # if every candidate is irrefutable and there is exactly one, destructure tuples/ranges in the pattern itself
        if len(cands) == 1 and cands[0][1] is not None and s.irrefutable(cands[0][1][0]) and not cands[0][0]["guard"]:
            txt = s.pat_text(cands[0][1][0], pty)
            return txt, ("direct", None)
        v = s.fresh("p")
        return v, ("var", v)

    def pat_text(s, p, ty):
        if p["k"] == "Ident":
            nm = p["name"]
            if ty == ("range",):
                s.env[nm] = ty
                s.sub[nm] = "(%s_start, %s_end)" % (nm, nm)
                return "(%s_start, %s_end)" % (nm, nm)
            s.env[nm] = ty
            s.sub.pop(nm, None)
            return nm
        if p["k"] == "Wild":
            return "_"
        if p["k"] == "Reference":
            return s.pat_text(p["pat"], ty)
        if p["k"] == "Tuple":
            tys = ty[1] if ty and ty[0] == "tuple" else [None] * len(p["elems"])
            return "(" + ", ".join(s.pat_text(x, t) for x, t in zip(p["elems"], tys)) + ")"
        raise Unsupported("pattern " + p["k"])

    def arm_chain(s, cands, binder, pty, kb):
        arm, sub = cands[0]
        def body():
            return s.scoped(lambda: s.expr(arm["body"], kb))
        if binder is None or binder[0] == "direct":
            if sub is None and arm["pat"]["k"] == "Ident" and binder is not None:
                raise Unsupported("catch-all binding in direct mode")
            if arm["guard"]:
                rest = s.arm_chain(cands[1:], binder, pty, kb)
                return s.expr(arm["guard"], K(lambda g, _t: If(g, body(), rest)))
            return body()
        v = binder[1]
        if sub is None:                      # wildcard / catch-all identifier
            if arm["pat"]["k"] == "Ident":
                s.env[arm["pat"]["name"]] = None
            return body()
        p = sub[0]
        if p["k"] == "Lit":
            lit = p["lit"]["digits"]
            cond = "(%s =? %s)" % (v, lit)
            rest = s.arm_chain(cands[1:], binder, pty, kb)
            if arm["guard"]:
                return s.expr(arm["guard"], K(lambda g, _t: If("%s && %s" % (cond, paren(g)), body(), rest)))
            return If(cond, body(), rest)
        if p["k"] == "Ident":
            s.env[p["name"]] = pty
            s.sub[p["name"]] = v
            if arm["guard"]:
                rest = s.arm_chain(cands[1:], binder, pty, kb)
                return s.expr(arm["guard"], K(lambda g, _t: If(g, body(), rest)))
            return body()
        if p["k"] == "Wild":
            return body()
        raise Unsupported("sub-pattern " + p["k"])

    # calls ------------------------------------------------------------------------------------------------
    def args(s, arglist, kargs):
        def go(i, acc):
            if i == len(arglist):
                return kargs(acc)
            return s.expr(arglist[i], K(lambda a, t: go(i + 1, acc + [(a, t)])))
        return go(0, [])

    def call_sig(s, sig, argvals, k, hint, discard):
        """call a translated function / primitive described by a Sig"""
        # the caller's reader handed on to a helper: the helper is translated in the same section, over the same `R`
        argvals = [(a, t) for a, t in argvals if t not in (("skip",), ("reader",))]
        outs = [i for i, (a, t) in enumerate(argvals) if t and t[0] in ("mslice", "alias", "rb", "rbalias")]
        txt = " ".join([sig.coqname] + ([sig.section_args] if sig.section_args else []) + [paren(s.arg_value(a, t)) for a, t in argvals])
        txt = txt.strip()
        if sig.world == "self":
            txt = s.lift(txt)
        if sig.pure:
            return k("(" + txt + ")" if " " in txt else txt, sig.ret)
        if not outs:
            if sig.ret == "unit":
                return Bind(None, Op(txt), k("tt", "unit"))
            v = s.fresh(hint or sig.hint or "r")
            return Bind(v, Op(txt), k(v, sig.ret))
        # in/out arguments: the callee returns (value, out1, ..): rebind the variables
        if len(outs) != 1:
            raise Unsupported("more than one in/out argument")
        a, t = argvals[outs[0]]
        q = s.fresh("q")
        val = "(fst %s)" % q
        new = "(snd %s)" % q
        def after():
            return k(val, sig.ret)
        return Bind(q, Op(txt), s.write_back(a, t, new, after))

    def arg_value(s, a, t):
        if t and t[0] == "rbalias":
            return "rb_view_bytes %s %s" % (paren(s.sub.get(t[1], t[1])), paren(t[2]))
        if t and t[0] == "alias":
            _, base, lo, hi = t
            return "slice %s %s %s" % (paren(s.sub.get(base, base)), paren(lo), paren(hi))
        return a

    def write_back(s, a, t, new, after):
        """an in/out argument comes back from a callee with value `new`"""
        if t[0] in ("mslice", "rb"):
            base = s.var_of(a, ("mslice", "rb"))
            nn = s.fresh(base)
            s.sub[base] = nn
            if base in s.backing:
                # the ReadBuf was built over a part of an outer ReadBuf: what the callee wrote lands there too
                outer, view = s.backing[base]
                on = s.fresh(outer)
                cur = s.sub.get(outer, outer)
                s.sub[outer] = on
                return Let(nn, new, Let(on, "rb_write_view %s %s (rb_buf %s)" % (paren(cur), paren(view), nn), after()))
            return Let(nn, new, after())
        if t[0] == "rbalias":
            _, base, view = t[:3]
            cur = s.sub.get(base, base)
            nn = s.fresh(base)
            s.sub[base] = nn
            return Let(nn, "rb_write_view %s %s %s" % (paren(cur), paren(view), paren(new)), after())
        _, base, lo, hi = t
        cur = s.sub.get(base, base)
        nn = s.fresh(base)
        s.sub[base] = nn
        return Let(nn, "splice %s %s %s" % (paren(cur), paren(lo), paren(new)), after())

    def e_MethodCall(s, e, k, hint, discard=False):
        recv, m, al = s.unpin(e["recv"]), e["method"], e["args"]
        st = s.cfg["struct"]
        if m == "get_mut" and not al and s.is_self(recv):
            return k("self", ("selfalias",))
        # methods of self
        if s.is_self(recv) and st and m not in st.methods and s.cfg.get("helper"):
            # a method the configuration does not list (e.g. a helper a refactoring introduced): translate it on demand
            sig = s.cfg["helper"](s, m)
            if sig is not None:
                st.methods[m] = sig
        if s.is_self(recv) and st and m in st.methods:
            sig = st.methods[m]
            return s.args(al, lambda av: s.call_sig(sig, av, k, hint or sig.hint, discard))
        # collaborator / field-specific operations
        if recv["k"] == "Field" and s.is_self(recv["base"]):
            key = (recv["member"], m)
            if st and key in st.fieldops:
                return st.fieldops[key](s, e, k, hint)
        if recv["k"] == "Index" and (recv["index"]["k"] == "Range" or (recv["index"]["k"] == "Path" and s.env.get(recv["index"]["path"][0]) == ("range",))):
            recv = {"k": "Reference", "mut": m in ("copy_from_slice", "fill", "copy_within"), "e": recv}
        def with_recv(a, t):
            key = (t[0] if isinstance(t, tuple) else t, m)
            f = LIB.get(key)
            if f is None:
                raise Unsupported("method %s on %s" % (m, t))
            return f(s, a, t, al, k, hint)
        return s.expr(recv, K(with_recv))

    def e_Call(s, e, k, hint, discard=False):
        f = e["func"]
        if f["k"] != "Path":
            raise Unsupported("call of a non-path")
        p = f["path"]
        nm = p[-1]
        al = e["args"]
        ck = "::".join(p)
        if ck in s.cfg.get("ctor_calls", {}):
            txt, nargs = s.cfg["ctor_calls"][ck]
            if nargs is None:        # newtype wrapper: AsyncFixedBuf(x) is x
                return s.expr(al[0], k)
            return s.args(al, lambda av: k(("%s %s" % (txt, " ".join(paren(a) for a, _ in av))).strip(), ("selfty",)))
        if p[-2:] == ["Poll", "Ready"]:
            return s.expr(al[0], K(lambda a, t: k("PReady %s" % paren(a), ("poll", t))))
        if len(p) == 1 and nm in ("Some", "Ok", "Err"):
            def with_a(a, t):
                ty = ("opt", t) if nm == "Some" else ("res", t, None) if nm == "Ok" else ("res", None, t)
                return k("%s %s" % (nm, paren(a)), ty)
            return s.expr(al[0], K(with_a))
        if len(p) == 1 and nm in s.env:
            t = s.env[nm]
            if t == ("parsefn",):
                # f(self): the closure is a computation on the buffer
                v = s.fresh("r")
                return Bind(v, Op(nm), k(v, ("opt", ("gen", "R"))))
            if t == ("deframer",):
                return s.args(al, lambda av: (lambda v: Bind(v, Op(s.lift("call_df %s %s" % (nm, paren(av[0][0])))), k(v, ("res", ("opt", ("tuple", [("range",), "usize"])), ("err", "MalformedInputError")))))(s.fresh("q")))
        # Self::helper(..) / helper(..): an associated or free function of the same file the tables do not list, translated on demand
        # like a helper method (it runs in the caller's world; a function without `self` simply does not touch it)
        st_ = s.cfg.get("struct")
        if st_ and s.cfg.get("helper") and ((len(p) == 2 and p[0] == "Self") or len(p) == 1) and nm not in s.env \
                and "::".join(p) not in s.tr.free_fns and "::".join(p) not in CALLS and nm not in s.tr.free_fns and nm[:1].islower():
            hk = "fn:" + nm
            if hk not in st_.methods:
                sig_ = s.cfg["helper"](s, nm, len(p) == 1)
                if sig_ is not None:
                    st_.methods[hk] = sig_
            if hk in st_.methods:
                sig_ = st_.methods[hk]
                return s.args(al, lambda av: s.call_sig(sig_, av, k, hint or sig_.hint, discard))
        key = "::".join(p)
        if key in s.tr.free_fns:
            sig = s.tr.free_fns[key]
            return s.args(al, lambda av: s.call_sig(sig, av, k, hint or sig.hint, discard))
        if key in CALLS:
            return CALLS[key](s, al, k, hint)
        if nm in s.tr.free_fns:
            sig = s.tr.free_fns[nm]
            return s.args(al, lambda av: s.call_sig(sig, av, k, hint or sig.hint, discard))
        raise Unsupported("call of " + key)

    post = None
    local_consts = {}
    const_stack = []
    loop_depth = 0        # 1 while translating statements that belong directly to a for / loop body (not to a nested join)
    backing = {}      # rb local made by ReadBuf::new(<alias of an outer ReadBuf>) -> (outer variable, view atom)

    def e_Await(s, e, k, hint):
        """the single await of an async fn: everything up to here is the prefix (it ends by yielding the awaited read future),
        the continuation is the suffix, a function of the future's result"""
        if not s.cfg.get("async") or s.post is not None or s.ret_mode != "pre" or s.in_valjoin:
            raise Unsupported("await outside the supported shape (one await, at statement level of the body / loop body)")
        def with_fut(a, t):
            if t != ("readfut",):
                raise Unsupported("await of something other than AsyncReadExt::read")
            q = s.fresh("q")
            saved = (s.ret_mode, s.maybe_vars)
            s.ret_mode, s.maybe_vars = "maybe", ()
            s.post = (q, k(q, ("res", "usize", ("err", "io"))))
            s.ret_mode, s.maybe_vars = saved
            return Ret("inr %s" % paren(a))
        return s.expr(e["e"], K(with_fut))

    def e_Struct(s, e, k, hint):
        nm = e["path"][-1]
        if nm in ("NotEnoughSpaceError",) and not e["fields"]:
            return k("tt", ("err", nm))
        if nm == "Self" and s.cfg.get("record"):
            rec = s.cfg["record"]
            def go(i, acc):
                if i == len(e["fields"]):
                    missing = [f for f in rec if f not in acc]
                    if missing:
                        raise Unsupported("struct literal lacks " + ",".join(missing))
                    return k("{| " + "; ".join("%s := %s" % (rec[f], acc[f]) for f in rec) + " |}", ("selfty",))
                fld = e["fields"][i]
                return s.expr(fld["e"], K(lambda a, t: go(i + 1, dict(acc, **{fld["name"]: a}))))
            return go(0, {})
        raise Unsupported("struct literal " + nm)

    def e_Repeat(s, e, k, hint):
        return s.expr(e["e"], K(lambda a, t: s.expr(e["len"], K(lambda n, _t: k("repeat %s (Z.to_nat %s)" % (paren(a), paren(n)), ("array",))))))

    def e_Macro(s, e, k, hint):
        if e["path"][-1] == "matches" and len(e["args"]) == 2:
            def to_pat(x):
                if x["k"] == "Call" and x["func"]["k"] == "Path":
                    return {"k": "TupleStruct", "path": x["func"]["path"], "elems": [to_pat(a) for a in x["args"]]}
                if x["k"] == "Lit":
                    return {"k": "Lit", "lit": x["lit"]}
                if x["k"] == "Path":
                    return {"k": "Path", "path": x["path"]} if x["path"][-1] in ("None",) or len(x["path"]) > 1 else {"k": "Ident", "name": x["path"][0], "by_ref": False, "mut": False, "sub": None}
                if x["k"] == "Tuple":
                    return {"k": "Tuple", "elems": [to_pat(a) for a in x["elems"]]}
                raise Unsupported("matches! pattern")
            tt_ = {"k": "Lit", "lit": {"k": "Bool", "value": True}}
            ff_ = {"k": "Lit", "lit": {"k": "Bool", "value": False}}
            arms = [{"pat": to_pat(e["args"][1]), "guard": None, "body": tt_}, {"pat": {"k": "Wild"}, "guard": None, "body": ff_}]
            return s.e_Match({"k": "Match", "e": e["args"][0], "arms": arms}, k, hint)
        if e["path"][-1] == "write" and s.cfg.get("fmt_fn"):
            return s.write_macro(e, k)
        return s.stmt(e, lambda: k("tt", "unit"))

    def write_macro(s, e, k):
        """write!(f, "literal {} literal", args..) in a Display/Debug impl: the value is the formatted text (String = its bytes).
        `{}` of an unsigned integer is its decimal form (`dec`), of a String the string; `{{` and `}}` are braces."""
        args = e["args"]
        if len(args) < 2 or args[1]["k"] != "Lit" or args[1]["lit"]["k"] != "Str":
            raise Unsupported("write! without a literal format string")
        fmt = bytes(int(b) for b in args[1]["lit"]["bytes"]).decode("utf-8")
        pieces, cur, i, holes = [], "", 0, 0
        while i < len(fmt):
            c = fmt[i]
            if c == "{" and fmt[i:i + 2] == "{{":
                cur += "{"; i += 2
            elif c == "}" and fmt[i:i + 2] == "}}":
                cur += "}"; i += 2
            elif c == "{" and fmt[i:i + 2] == "{}":
                pieces.append(cur); cur = ""; holes += 1; i += 2
            elif c in "{}":
                raise Unsupported("format specifier in write!")
            else:
                cur += c; i += 1
        pieces.append(cur)
        if holes != len(args) - 2:
            raise Unsupported("write!: %d holes, %d arguments" % (holes, len(args) - 2))
        def lit(p):
            return "[" + ";".join(str(b) for b in p.encode("utf-8")) + "]"
        def go(j, acc):
            if j == holes:
                parts = []
                for n, p in enumerate(pieces):
                    if p:
                        parts.append(lit(p))
                    if n < holes:
                        parts.append(acc[n])
                return k(" ++ ".join(parts) if parts else "[]", ("string",))
            def with_a(a, t):
                if t in ("usize", "u64", "u8", "int"):
                    return go(j + 1, acc + ["dec %s" % paren(a)])
                if t in (("string",), ("slice",)):
                    return go(j + 1, acc + [paren(a)])
                raise Unsupported("write!: {} of %s" % (t,))
            return s.expr(args[2 + j], K(with_a))
        return go(0, [])

    def e_Assign(s, e, k, hint):
        return s.stmt(e, lambda: k("tt", "unit"))

    def e_For(s, e, k, hint):
        return s.stmt(e, lambda: k("tt", "unit"))


def split_pair(a):
    assert a.startswith("(") and a.endswith(")")
    d = 0
    for i, ch in enumerate(a):
        if ch == "(":
            d += 1
        elif ch == ")":
            d -= 1
        elif ch == "," and d == 1:
            return a[1:i].strip(), a[i + 1:-1].strip()
    raise Unsupported("not a pair: " + a)


# ------------------------------------------------------------------------------------------ library table
def lib_len(fmt):
    def f(s, a, t, al, k, hint):
        if al:
            raise Unsupported("len with arguments")
        return k(fmt % paren(a), "usize")
    return f


def lib_is_empty(fmt):
    def f(s, a, t, al, k, hint):
        return k("(%s =? 0)" % (fmt % paren(a)), "bool")
    return f


def lib_alias_len(s, a, t, al, k, hint):
    return k("(%s - %s)" % (paren(t[3]), paren(t[2])), "usize")


def lib_min(s, a, t, al, k, hint):
    return s.expr(al[0], K(lambda b, _t: k("Z.min %s %s" % (paren(a), paren(b)), t)))


def lib_ident(ty):
    def f(s, a, t, al, k, hint):
        return k(a, ty if ty else t)
    return f


def lib_mem_as_mut(s, a, t, al, k, hint):
    return k(a, ("memmut",))


def lib_copy_within(s, a, t, al, k, hint):
    r = al[0]
    if r["k"] != "Range" or r["inclusive"] or r["lo"] is None or r["hi"] is None:
        raise Unsupported("copy_within range form")
    return s.expr(r["lo"], K(lambda lo, _1: s.expr(r["hi"], K(lambda hi, _2: s.expr(al[1], K(lambda d, _3:
        Bind(None, Op(s.lift("mem_copy_within %s %s %s" % (paren(lo), paren(hi), paren(d)))), k("tt", "unit"))))))))


def lib_view_copy_from_slice(s, a, t, al, k, hint):
    return s.expr(al[0], K(lambda src, _t: Bind(None, Op(s.lift("view_copy_from_slice %s %s" % (paren(a), paren(src)))), k("tt", "unit"))))


def lib_alias_copy_from_slice(s, a, t, al, k, hint):
    _, base, lo, hi = t
    def with_src(src, _t):
        n = paren(hi) if lo == "0" else "%s - %s" % (paren(hi), paren(lo))
        chk = Op("assert_ (%s =? zlen %s)" % (n, paren(src)))
        cur = s.sub.get(base, base)
        nn = s.fresh(base)
        s.sub[base] = nn
        return Bind(None, chk, Let(nn, "splice %s %s %s" % (paren(cur), paren(lo), paren(src)), k("tt", "unit")))
    return s.expr(al[0], K(with_src))


def lib_opt_map(s, a, t, al, k, hint):
    """o.map(|x| body): the closure runs only for Some"""
    c = al[0]
    if not (c["k"] == "Closure" and len(c["inputs"]) == 1 and c["inputs"][0]["k"] in ("Ident", "Wild", "Tuple")):
        raise Unsupported("Option::map with this closure")
    def build(kb):
        def some():
            pt = s.pat_text(c["inputs"][0], t[1])
            return ("Some %s" % pt, s.expr(closure_body(s, c), K(lambda b, tb: kb("Some %s" % paren(b), ("opt", tb)))))
        arm1 = s.scoped(some)
        return Match(a, [arm1, ("None", kb("None", ("opt", None)))])
    return s.join(k, build, hint, "m")


def lib_ok_or(s, a, t, al, k, hint):
    return s.expr(al[0], K(lambda e, te: k("match %s with Some v => Ok v | None => Err %s end" % (a, paren(e)), ("res", t[1], te))))


def lib_or_else(s, a, t, al, k, hint):
    c = al[0]
    if not (c["k"] == "Closure" and not c["inputs"]):
        raise Unsupported("Option::or_else with this closure")
    def build(kb):
        v = s.fresh("v")
        return Match(a, [("Some %s" % v, kb("Some %s" % v, t)), ("None", s.scoped(lambda: s.expr(closure_body(s, c), kb)))])
    return s.join(k, build, hint, "m", node=c["body"])


def closure_body(s, c):
    """the body of a closure handed to a combinator is translated in place, in the enclosing function's context: that is only right when
    the body cannot leave the closure early (`return` / `?` inside it return from the CLOSURE, not from the function)"""
    if s.returns(c["body"]) != "never":
        raise Unsupported("return / ? / continue inside a closure body")
    return c["body"]


def lib_bool_then(s, a, t, al, k, hint):
    """cond.then(|| e): Some(e) when cond (e evaluated only then), else None"""
    c = al[0]
    if not (c["k"] == "Closure" and not c["inputs"]):
        raise Unsupported("bool::then with this closure")
    def build(kb):
        def some():
            return s.expr(closure_body(s, c), K(lambda v, tv: kb("Some %s" % paren(v), ("opt", tv))))
        return If(a, s.scoped(some), kb("None", ("opt", None)))
    return s.join(k, build, hint, "m", node=c["body"])


def lib_view_get_mut(s, a, t, al, k, hint):
    """view.get_mut(lo..hi) / get(lo..hi): Some(sub-view) when lo <= hi <= len, else None (no panic)"""
    r = al[0]
    if r["k"] != "Range" or r.get("inclusive"):
        raise Unsupported("get_mut with this index")
    def with_lo(lo, _t):
        def with_hi(hi, _t2):
            txt = ("(if (%s <=? %s) && (%s <=? vlen %s) then Some {| v_off := v_off %s + %s; v_end := v_off %s + %s |} else None)"
                   % (paren(lo), paren(hi), paren(hi), paren(a), paren(a), paren(lo), paren(a), paren(hi)))
            return k(txt, ("opt", ("view",)))
        if r["hi"] is None:
            return with_hi("vlen %s" % paren(a), "usize")
        return s.expr(r["hi"], K(with_hi))
    if r["lo"] is None:
        return with_lo("0", "usize")
    return s.expr(r["lo"], K(with_lo))


def lib_result_map(s, a, t, al, k, hint):
    c = al[0]
    if c["k"] == "Closure" and len(c["inputs"]) == 1 and c["inputs"][0]["k"] == "Wild" and c["body"]["k"] == "Tuple" and not c["body"]["elems"]:
        return k("match %s with Ok _ => Ok tt | Err e => Err e end" % a, ("res", "unit", t[2]))
    raise Unsupported("Result::map with this closure")


def lib_push_str(s, a, t, al, k, hint):
    base = [n for n in s.env if s.sub.get(n, n) == a and s.env[n] == ("string",)]
    if not base:
        raise Unsupported("push_str on a non-variable")
    def with_arg(x, _t):
        nn = s.fresh(base[0])
        cur = s.sub.get(base[0], base[0])
        s.sub[base[0]] = nn
        return Let(nn, "%s ++ %s" % (paren(cur), paren(x)), k("tt", "unit"))
    return s.expr(al[0], K(with_arg))


def lib_utf8_unwrap(s, a, t, al, k, hint):
    v = s.fresh("s")
    return Bind(v, Op("from_utf8_unwrap_1 %s" % paren(t[1])), k(v, ("slice",)))


def lib_rb_pure(fmt, ty):
    def f(s, a, t, al, k, hint):
        return k(fmt % paren(a), ty)
    return f


def lib_rb_advance(s, a, t, al, k, hint):
    base = s.var_of(a, ("rb",))
    def with_n(n, _t):
        nn = s.fresh(base)
        s.sub[base] = nn
        if base in s.backing:
            raise Unsupported("advance on a ReadBuf that aliases another")
        return Bind(nn, Op("rb_advance %s %s" % (paren(a), paren(n))), k("tt", "unit"))
    return s.expr(al[0], K(with_n))


def lib_rb_initialize_unfilled(s, a, t, al, k, hint):
    base = s.var_of(a, ("rb",))
    q = s.fresh("q")
    nn = s.fresh(base)
    v = s.fresh("unfilled")
    s.sub[base] = nn
    return Bind(q, Op("rb_initialize_unfilled %s" % paren(a)), Let(nn, "(fst %s)" % q, Let(v, "(snd %s)" % q, k("<rbalias>", ("rbalias", base, v)))))


def lib_map_err(s, a, t, al, k, hint):
    c = al[0]
    if c["k"] == "Closure" and len(c["inputs"]) == 1 and c["inputs"][0]["k"] == "Wild":
        return s.expr(closure_body(s, c), K(lambda e, te: k("match %s with Ok v => Ok v | Err _ => Err %s end" % (a, paren(e)), ("res", t[1], te))))
    raise Unsupported("Result::map_err with this closure")


def call_readbuf_new(s, al, k, hint):
    def with_a(a, t):
        if not (t and t[0] == "rbalias" and len(t) == 4):
            raise Unsupported("ReadBuf::new over %s" % (t,))
        return k("rb_new %s" % paren(t[3]), ("rbnew", t[1], t[2]))
    return s.expr(al[0], K(with_a))


LIB = {
    ("rb", "filled"): lib_rb_pure("rb_filled_bytes %s", ("slice",)),
    ("rb", "remaining"): lib_rb_pure("rb_remaining %s", "usize"),
    ("rb", "capacity"): lib_rb_pure("rb_capacity %s", "usize"),
    ("rb", "advance"): lib_rb_advance,
    ("rb", "initialize_unfilled"): lib_rb_initialize_unfilled,
    ("res", "map_err"): lib_map_err,
    ("string", "push_str"): lib_push_str,
    ("utf8res1", "unwrap"): lib_utf8_unwrap,
    ("slice", "len"): lib_len("zlen %s"), ("mslice", "len"): lib_len("zlen %s"), ("view", "len"): lib_len("vlen %s"),
    ("memmut", "len"): lib_len("zlen %s"), ("alias", "len"): lib_alias_len,
    ("slice", "is_empty"): lib_is_empty("zlen %s"), ("mslice", "is_empty"): lib_is_empty("zlen %s"),
    ("view", "is_empty"): lib_is_empty("vlen %s"),
    ("u64", "min"): lib_min, ("usize", "min"): lib_min,
    ("slice", "as_bytes"): lib_ident(("slice",)),
    ("slice", "as_ref"): lib_ident(("slice",)),
    ("memfield", "as_ref"): lib_ident(("slice",)),
    ("memfield", "as_mut"): lib_mem_as_mut,
    ("memmut", "copy_within"): lib_copy_within,
    ("view", "copy_from_slice"): lib_view_copy_from_slice,
    ("alias", "copy_from_slice"): lib_alias_copy_from_slice,
    ("res", "map"): lib_result_map,
    ("opt", "map"): lib_opt_map,
    ("opt", "ok_or"): lib_ok_or,
    ("opt", "or_else"): lib_or_else,
    ("bool", "then"): lib_bool_then,
    ("view", "get_mut"): lib_view_get_mut,
}


def call_min(s, al, k, hint):
    return s.expr(al[0], K(lambda a, t: s.expr(al[1], K(lambda b, _t: k("Z.min %s %s" % (paren(a), paren(b)), t)))))


def call_io_error_new(s, al, k, hint):
    kind = al[0]
    if kind["k"] == "Path" and kind["path"][-2:-1] == ["ErrorKind"]:
        return k(kind["path"][-1], ("err", "io"))
    raise Unsupported("io::Error::new with a computed kind")


def call_io_error_from(s, al, k, hint):
    """std::io::Error::from(e): the From conversion `?` would apply (identity on io::Error)"""
    def with_e(e, te):
        if te == ("err", "io"):
            return k(e, te)
        return k(s.tr.err_conv(te, ("err", "io"), e), ("err", "io"))
    return s.expr(al[0], K(with_e))


def call_async_read(s, al, k, hint):
    """tokio::io::AsyncReadExt::read(reader, dest): builds the Read future; nothing happens until it is polled"""
    def with_args(av):
        (r, tr), (d, td) = av
        if tr != ("reader",) or td != ("view",):
            raise Unsupported("AsyncReadExt::read(%s, %s)" % (tr, td))
        return k(d, ("readfut",))
    return s.args(al, with_args)


def call_string_new(s, al, k, hint):
    return k("[]", ("string",))


def call_escape_default(s, al, k, hint):
    return s.expr(al[0], K(lambda a, t: k("escape_default %s" % paren(a), ("bytes_iter",))))


def call_from_utf8(s, al, k, hint):
    """core::str::from_utf8(&[b]): only the one-byte form is modelled"""
    a0 = al[0]
    if a0["k"] == "Reference" and a0["e"]["k"] == "Array" and len(a0["e"]["elems"]) == 1:
        return s.expr(a0["e"]["elems"][0], K(lambda b, _t: k("<utf8>", ("utf8res1", b))))
    raise Unsupported("from_utf8 of something other than a one-byte array")


CALLS = {
    "usize::min": call_min, "u64::min": call_min, "Ord::min": call_min, "core::cmp::Ord::min": call_min, "std::cmp::Ord::min": call_min,
    "ReadBuf::new": call_readbuf_new, "tokio::io::ReadBuf::new": call_readbuf_new,
    "String::new": call_string_new, "core::ascii::escape_default": call_escape_default, "core::str::from_utf8": call_from_utf8,
    "tokio::io::AsyncReadExt::read": call_async_read,
    "core::cmp::min": call_min, "std::cmp::min": call_min,
    "std::io::Error::new": call_io_error_new, "io::Error::new": call_io_error_new,
    "std::io::Error::from": call_io_error_from, "io::Error::from": call_io_error_from,
}


# ------------------------------------------------------------------------------------------ driver
class Translator:
    def __init__(s, ast):
        s.files = {"/".join(f["file"].split("/")[-3:]): f["items"] for f in ast}
        s.free_fns = {}
        s.consts = {}
        for items in s.files.values():
            for c in items.get("consts", []):
                s.consts[c["name"]] = c["e"]
        s.reserved = set()
        s.from_impls = {}
        s.scan_from_impls()

    def scan_from_impls(s):
        """impl From<X> for std::io::Error { fn from(..) -> Self { std::io::Error::new(ErrorKind::K, ..) } }"""
        for items in s.files.values():
            for fn in items["fns"]:
                tr = fn["impl_trait"]
                if tr and tr.replace(" ", "").startswith("From<") and "io::Error" in (fn["impl_self"] or "").replace(" ", ""):
                    src = tr.replace(" ", "")[5:-1]
                    body = fn["body"]
                    kind = None
                    if len(body) == 1 and body[0]["k"] == "Expr":
                        e = body[0]["expr"]
                        if e["k"] == "Call" and e["func"]["k"] == "Path" and e["func"]["path"][-2:] == ["Error", "new"]:
                            a0 = e["args"][0]
                            if a0["k"] == "Path" and a0["path"][-2:-1] == ["ErrorKind"]:
                                kind = a0["path"][-1]
                    if kind is None:
                        raise Unsupported("From<%s> for io::Error: body not of the form io::Error::new(ErrorKind::K, ..)" % src)
                    s.from_impls[src] = kind

    def err_conv(s, from_ty, to_ty, var):
        """the `?` conversion From::from(e)"""
        if from_ty == to_ty or from_ty is None:
            return var
        if to_ty == ("err", "io") and from_ty and from_ty[0] == "err" and from_ty[1] in s.from_impls:
            return s.from_impls[from_ty[1]]
        raise Unsupported("no From conversion %s -> %s" % (from_ty, to_ty))

    def find(s, file, name, trait=None, self_like=None):
        for fn in s.files[file]["fns"]:
            if fn["name"] != name:
                continue
            if trait is None and fn["impl_trait"] is not None:
                continue
            if trait is not None and (fn["impl_trait"] or "").replace(" ", "") != trait.replace(" ", ""):
                continue
            if self_like is not None and self_like not in (fn["impl_self"] or ""):
                continue
            return fn
        raise Unsupported("function %s (%s) not found in %s" % (name, trait, file))
