(* mlrun/drv.ml — generic driver for the extracted model.
   usage: drv <chk:0|1> < cases > traces
   Each input line is a list of decimal integers (a case); the output line is the list of
   integers `Model.run_case chk case` returns.  All decoding of cases is done in Gallina. *)
open Model

let rec pos_of_int (n : int) : positive =
  if n = 1 then XH else if n land 1 = 0 then XO (pos_of_int (n lsr 1)) else XI (pos_of_int (n lsr 1))
let z_of_int (n : int) : z = if n = 0 then Z0 else if n > 0 then Zpos (pos_of_int n) else Zneg (pos_of_int (-n))

let z10 = z_of_int 10
(* decimal string of any size -> z, through the extracted Z arithmetic *)
let z_of_string (s : string) : z =
  let n = String.length s in
  if n <= 17 then z_of_int (int_of_string s)
  else begin
    let neg = s.[0] = '-' in
    let acc = ref Z0 in
    for i = (if neg then 1 else 0) to n - 1 do
      acc := Z.add (Z.mul !acc z10) (z_of_int (Char.code s.[i] - 48))
    done;
    if neg then Z.opp !acc else !acc
  end

let rec pos_bits (p : positive) : int = match p with XH -> 1 | XO q | XI q -> 1 + pos_bits q
let rec int_of_pos (p : positive) : int = match p with XH -> 1 | XO q -> 2 * int_of_pos q | XI q -> 2 * int_of_pos q + 1
let rec string_of_bigpos (p : positive) : string =
  (* p >= 2^60: peel decimal digits with the extracted division *)
  if pos_bits p <= 60 then string_of_int (int_of_pos p)
  else begin
    let (q, r) = Z.div_eucl (Zpos p) z10 in
    let d = match r with Z0 -> 0 | Zpos x -> int_of_pos x | Zneg _ -> 0 in
    (match q with Zpos qp -> string_of_bigpos qp | _ -> "") ^ string_of_int d
  end
let string_of_z (x : z) : string = match x with
  | Z0 -> "0"
  | Zpos p -> string_of_bigpos p
  | Zneg p -> "-" ^ string_of_bigpos p

let () =
  let chk = Sys.argv.(1) = "1" in
  let buf = Buffer.create 65536 in
  (try
    while true do
      let line = input_line stdin in
      let toks = List.filter (fun t -> t <> "") (String.split_on_char ' ' line) in
      let case = List.map z_of_string toks in
      let out = run_case chk case in
      Buffer.clear buf;
      List.iteri (fun i x -> if i > 0 then Buffer.add_char buf ' '; Buffer.add_string buf (string_of_z x)) out;
      Buffer.add_char buf '\n';
      print_string (Buffer.contents buf)
    done
  with End_of_file -> ())
